import GN.Url.ObjSpec
import GN.Url.ParamsLemmas2

/-!
# C13: proofs of the statements of `GN/Url/ObjSpec.lean`
-/

namespace GN.Url.Obj
open GN GN.Url GN.Url.Net

/-! ## the query escaper -/

/-- a byte `escapeQuery` copies -/
def qsafe (c : UInt8) : Bool := !(c > 127 || !safeQuery c)

def escQ (c : UInt8) : Bytes :=
  if c > 127 || !safeQuery c then [37, upperHexDigit (c >>> 4), upperHexDigit (c &&& 15)] else [c]

theorem escapeQuery_eq (s : Bytes) : escapeQuery s = s.flatMap escQ := rfl

theorem escQ_qsafe_fin : ∀ n : Fin 256, (escQ (UInt8.ofNat n.val)).all qsafe = true := by decide +kernel

theorem escQ_qsafe (c : UInt8) : (escQ c).all qsafe = true := by
  have h := escQ_qsafe_fin ⟨c.toNat, c.toNat_lt⟩
  simpa [UInt8.ofNat_toNat] using h

theorem escQ_of_qsafe (c : UInt8) (h : qsafe c = true) : escQ c = [c] := by
  unfold qsafe at h
  unfold escQ
  simp only [Bool.not_eq_true'] at h
  simp [h]

theorem escapeQuery_of_all_qsafe (s : Bytes) (h : s.all qsafe = true) : escapeQuery s = s := by
  induction s with
  | nil => rfl
  | cons c cs ih =>
    simp only [List.all_cons, Bool.and_eq_true] at h
    rw [escapeQuery_eq, List.flatMap_cons, escQ_of_qsafe c h.1, ← escapeQuery_eq, ih h.2]
    rfl

theorem escapeQuery_all_qsafe (s : Bytes) : (escapeQuery s).all qsafe = true := by
  rw [escapeQuery_eq]
  simp only [List.all_flatMap]
  simp [escQ_qsafe]

theorem escapeQuery_idem (q : Bytes) : escapeQuery (escapeQuery q) = escapeQuery q :=
  escapeQuery_of_all_qsafe _ (escapeQuery_all_qsafe q)

theorem escParam_qsafe_fin : ∀ n : Fin 256, (Url.escByte safeParam (UInt8.ofNat n.val)).all qsafe = true := by
  decide +kernel

theorem escParam_qsafe (c : UInt8) : (Url.escByte safeParam c).all qsafe = true := by
  have h := escParam_qsafe_fin ⟨c.toNat, c.toNat_lt⟩
  simpa [UInt8.ofNat_toNat] using h

theorem escapeParam_all_qsafe (s : Bytes) : (Url.escape safeParam s).all qsafe = true := by
  unfold Url.escape
  simp only [List.all_flatMap]
  simp [escParam_qsafe]

theorem serializePair_all_qsafe (p : Pair) : (serializePair p).all qsafe = true := by
  unfold serializePair
  simp only [List.all_append, escapeParam_all_qsafe, Bool.true_and, Bool.and_true]
  decide

theorem serialize_all_qsafe : ∀ l : Params, (serialize l).all qsafe = true
  | [] => rfl
  | [p] => by simp only [serialize]; exact serializePair_all_qsafe p
  | p :: q :: ps => by
    rw [serialize_cons_cons]
    have h38 : qsafe 38 = true := by decide
    simp only [List.all_append, List.all_cons, serializePair_all_qsafe, serialize_all_qsafe (q :: ps),
      h38, Bool.and_true]

theorem escapeQuery_serialize (l : Params) : escapeQuery (serialize l) = serialize l :=
  escapeQuery_of_all_qsafe _ (serialize_all_qsafe l)

theorem queryEscapeStable : QueryEscapeStable := ⟨escapeQuery_idem, escapeQuery_serialize⟩

/-! ## synchronisation, `href` -/

theorem sync_sp (st : St) : st.sync.sp = st.sp := by
  unfold St.sync; split <;> try split
  all_goals rfl

theorem sync_cases (st : St) :
    (st.sync = st ∧ (st.sp = none ∨ st.url.rawQuery ≠ [] ∨ st.sp = some [])) ∨
    (∃ l, st.sp = some l ∧ l ≠ [] ∧ st.url.rawQuery = [] ∧
      st.sync = { st with url := { st.url with rawQuery := serialize l } }) := by
  unfold St.sync
  split
  · next l hl =>
    split
    · next h =>
      simp only [Bool.and_eq_true, decide_eq_true_eq, beq_iff_eq] at h
      refine Or.inr ⟨l, hl, ?_, h.2, rfl⟩
      intro e; subst e; simp at h
    · next h =>
      simp only [Bool.and_eq_true, decide_eq_true_eq, beq_iff_eq, not_and] at h
      refine Or.inl ⟨rfl, ?_⟩
      cases l with
      | nil => exact Or.inr (Or.inr hl)
      | cons a t => exact Or.inr (Or.inl (h (by simp)))
  · next h => exact Or.inl ⟨rfl, Or.inl h⟩

theorem sync_idem (st : St) : st.sync.sync = st.sync := by
  rcases sync_cases st with ⟨h, _⟩ | ⟨l, hl, hne, hq, h⟩
  · rw [h, h]
  · rcases sync_cases st.sync with ⟨h', _⟩ | ⟨l', _, _, hq', _⟩
    · exact h'
    · rw [h] at hq'
      simp only at hq'
      rw [serialize_eq_nil_iff] at hq'
      exact absurd hq' hne

theorem hrefShowsQuery : HrefShowsQuery := by
  intro st _
  refine ⟨rfl, rfl, ?_⟩
  simp only [observe, sync_idem]

/-- the host computed by `fixURL` -/
def fixHost (scheme host : Bytes) : Except Err Bytes :=
  let host1 := trimSuffix host [58]
  if hasPrefix host1 [91] then
    if host1.all (· < 128) then .ok (toLowerAscii host1) else .error .noclaim
  else if isSpecialNetProtocol scheme then
    match Idna.toASCII (splitHostPort host1).1 with
    | .noclaim => .error .noclaim
    | .error => .error .invalidHostname
    | .ok ch =>
      if ch != (splitHostPort host1).1 then
        .ok (if (splitHostPort host1).2 != [] then ch ++ 58 :: (splitHostPort host1).2 else ch)
      else .ok host1
  else .ok host1

theorem fixURL_eq (u : URL) :
    fixURL u = match fixHost u.scheme u.host with
      | .error e => .error e
      | .ok h => .ok (fixRawQuery { u with path := cleanPath u.path u.scheme, host := h }) := by
  unfold fixURL fixHost
  simp only [bind, Except.bind, pure, Except.pure, throw, throwThe, MonadExceptOf.throw, URL.hostname, URL.port]
  by_cases h1 : hasPrefix (trimSuffix u.host [58]) [91] = true
  · by_cases h2 : (trimSuffix u.host [58]).all (· < 128) = true
    · simp [h1, h2]
    · simp [h1, h2]
  · by_cases h3 : isSpecialNetProtocol u.scheme = true
    · simp only [h1, h3]
      cases h4 : Idna.toASCII (splitHostPort (trimSuffix u.host [58])).1 with
      | noclaim => simp
      | error => simp
      | ok ch =>
        by_cases h5 : (ch != (splitHostPort (trimSuffix u.host [58])).1) = true
        · simp [h5]
        · simp [h5]
    · simp [h1, h3]


/-- the port handling of `normalizeURL` -/
def normPort (u : URL) : URL :=
  if u.port != [] then
    match atoi u.port with
    | none => clearURLPort u
    | some n => if isDefaultURLPort u.scheme n then clearURLPort u else u
  else u

theorem normalizeURL_eq (u : URL) :
    normalizeURL u =
      if isSpecialNetProtocol u.scheme && u.host == [] && u.path == [] then .error .invalidURL
      else if !validHostColons u then .error .invalidURL
      else fixURL (normPort u) := by
  unfold normalizeURL normPort
  simp only [bind, Except.bind, throw, throwThe, MonadExceptOf.throw]
  by_cases h1 : (isSpecialNetProtocol u.scheme && u.host == [] && u.path == []) = true
  · simp only [h1]; rfl
  · by_cases h2 : (!validHostColons u) = true
    · simp only [h1, h2]; rfl
    · simp only [h1, h2]; rfl

theorem normalizeURL_ok (u u' : URL) (h : normalizeURL u = .ok u') :
    validHostColons u = true ∧ fixURL (normPort u) = .ok u' := by
  rw [normalizeURL_eq] at h
  split at h
  · cases h
  · split at h
    · cases h
    · next h2 => simp at h2; exact ⟨h2, h⟩

/-! ## the setters that can throw -/

theorem step_host (st st' : St) (host : Bytes) (h : step st (.set .host host) = .ok st') :
    st' = st ∨ (validHost st.url.scheme host = .ok true ∧
      ∃ u, fixURL { st.url with host := host } = .ok u ∧ st' = { st with url := dropDefaultPort u }) := by
  simp only [step, bind, Except.bind, pure, Except.pure] at h
  cases hv : validHost st.url.scheme host with
  | error e => rw [hv] at h; cases h
  | ok b =>
    rw [hv] at h
    cases b with
    | false => simp at h; exact Or.inl h.symm
    | true =>
      simp only [if_true] at h
      generalize hf : fixURL _ = f at h
      cases f with
      | error e => cases h
      | ok u => simp only [Except.ok.injEq] at h; exact Or.inr ⟨rfl, u, rfl, h.symm⟩

theorem step_hostname (st st' : St) (hn : Bytes) (h : step st (.set .hostname hn) = .ok st') :
    st' = st ∨ (hn.contains 58 = false ∧ validHost st.url.scheme hn = .ok true ∧
      ∃ u, fixURL { st.url with host := if st.url.port != [] then hn ++ 58 :: st.url.port else hn } = .ok u ∧
        st' = { st with url := u }) := by
  simp only [step, bind, Except.bind, pure, Except.pure] at h
  cases hc : hn.contains 58 with
  | true => rw [hc] at h; simp only [if_true] at h; cases h; exact Or.inl rfl
  | false =>
    rw [hc] at h
    simp only [Bool.false_eq_true, if_false] at h
    cases hv : validHost st.url.scheme hn with
    | error e => rw [hv] at h; cases h
    | ok b =>
      rw [hv] at h
      cases b with
      | false => simp at h; exact Or.inl h.symm
      | true =>
        simp only [if_true] at h
        generalize hf : fixURL _ = f at h
        cases f with
        | error e => cases h
        | ok u => simp only [Except.ok.injEq] at h; exact Or.inr ⟨rfl, rfl, u, rfl, h.symm⟩

theorem step_protocol (st st' : St) (v : Bytes) (h : step st (.set .protocol v) = .ok st') :
    st' = st ∨ ∃ s u, fixURL { st.url with scheme := s } = .ok u ∧ st' = { st with url := dropDefaultPort u } := by
  simp only [step, bind, Except.bind, pure, Except.pure, throw, throwThe, MonadExceptOf.throw] at h
  by_cases hna : hasNonAscii (cut v 58).fst = true
  · rw [if_pos hna] at h; cases h
  rw [if_neg hna] at h
  generalize (isSpecialProtocol st.url.scheme == isSpecialProtocol (toLowerAscii (cut v 58).fst) &&
      (match ParseRequestURI (toLowerAscii (cut v 58).fst ++ [58, 47, 47] ++ st.url.host) with
        | some p => p.scheme == toLowerAscii (cut v 58).fst
        | none => false)) = cond at h
  cases cond with
  | false => simp only [Bool.false_eq_true, if_false] at h; cases h; exact Or.inl rfl
  | true =>
    simp only [if_true] at h
    by_cases hsn : isSpecialNetProtocol (toLowerAscii (cut v 58).fst) = true
    · rw [if_pos hsn] at h
      generalize (if (st.url.opaq == []) = true then validHost (toLowerAscii (cut v 58).fst) st.url.host
            else Except.ok false) = w at h
      cases w with
      | error e => cases h
      | ok b =>
        cases b with
        | false => simp at h; exact Or.inl h.symm
        | true =>
          simp only [if_true] at h
          generalize hf : fixURL _ = f at h
          cases f with
          | error e => cases h
          | ok u => simp only [Except.ok.injEq] at h; exact Or.inr ⟨_, u, hf, h.symm⟩
    · rw [if_neg hsn] at h
      generalize hf : fixURL _ = f at h
      cases f with
      | error e => cases h
      | ok u => simp only [Except.ok.injEq] at h; exact Or.inr ⟨_, u, hf, h.symm⟩

/-! ## the query is a fixed point of the escaper -/

/-- the invariant behind `SearchParamsCoherent` -/
def QInv (st : St) : Prop :=
  escapeQuery st.url.rawQuery = st.url.rawQuery ∧
  ∀ l, st.sp = some l → st.url.rawQuery ≠ [] → parseParams st.url.rawQuery = l

theorem fixRawQuery_fixed (u : URL) : escapeQuery (fixRawQuery u).rawQuery = (fixRawQuery u).rawQuery := by
  unfold fixRawQuery
  split
  · exact escapeQuery_idem _
  · next h => simp at h; rw [h]; rfl

theorem fixRawQuery_of_fixed (u : URL) (h : escapeQuery u.rawQuery = u.rawQuery) : fixRawQuery u = u := by
  unfold fixRawQuery
  split
  · rw [h]
  · rfl

theorem fixURL_query (u u' : URL) (h : fixURL u = .ok u') :
    escapeQuery u'.rawQuery = u'.rawQuery ∧ (escapeQuery u.rawQuery = u.rawQuery → u'.rawQuery = u.rawQuery) := by
  rw [fixURL_eq] at h
  split at h
  · cases h
  · next hst _ =>
    cases h
    refine ⟨fixRawQuery_fixed _, fun hq => ?_⟩
    rw [fixRawQuery_of_fixed _ (by exact hq)]

theorem clearURLPort_rawQuery (u : URL) : (clearURLPort u).rawQuery = u.rawQuery := rfl

theorem normPort_rawQuery (u : URL) : (normPort u).rawQuery = u.rawQuery := by
  unfold normPort
  split
  · split
    · rfl
    · split <;> rfl
  · rfl

theorem dropDefaultPort_rawQuery (u : URL) : (dropDefaultPort u).rawQuery = u.rawQuery := by
  unfold dropDefaultPort
  split
  · split <;> rfl
  · rfl

theorem setURLPort_rawQuery (u : URL) (v : PortArg) : (setURLPort u v).rawQuery = u.rawQuery := by
  unfold setURLPort
  split
  · rfl
  · split
    split
    · rfl
    · split
      · rfl
      · split <;> rfl

theorem normalizeURL_query (u u' : URL) (h : normalizeURL u = .ok u') : escapeQuery u'.rawQuery = u'.rawQuery :=
  (fixURL_query _ _ (normalizeURL_ok u u' h).2).1

theorem parseURL_query (s : Bytes) (b : Bool) (u : URL) (h : parseURL s b = .ok u) :
    escapeQuery u.rawQuery = u.rawQuery := by
  unfold parseURL at h
  split at h
  · cases h
  · split at h
    · cases h
    · exact normalizeURL_query _ _ h

theorem construct_query (s : Bytes) (base : Option Bytes) (u : URL) (h : construct s base = .ok u) :
    escapeQuery u.rawQuery = u.rawQuery := by
  unfold construct at h
  split at h
  · exact parseURL_query _ _ _ h
  · simp only [bind, Except.bind] at h
    split at h
    · cases h
    · split at h
      · cases h
      · split at h
        · exact parseURL_query _ _ _ h
        · exact normalizeURL_query _ _ h

/-! ## searchParams and the query -/

theorem qinv_same (st st' : St) (hsp : st'.sp = st.sp) (hq : st'.url.rawQuery = st.url.rawQuery)
    (h : QInv st) : QInv st' := by
  unfold QInv at *
  rw [hsp, hq]; exact h

theorem qinv_of_empty (st : St) (h : st.url.rawQuery = []) : QInv st := by
  unfold QInv
  rw [h]
  exact ⟨rfl, fun _ _ hne => absurd rfl hne⟩

theorem markUpdated_rawQuery (st : St) : st.markUpdated.url.rawQuery = [] := by
  unfold St.markUpdated
  split
  · rfl
  · next h => simpa using h

theorem qinv_refresh (st : St) (h : escapeQuery st.url.rawQuery = st.url.rawQuery) : QInv st.refreshParams := by
  unfold St.refreshParams
  split
  · refine ⟨h, ?_⟩
    intro l hl _
    simp only [Option.some.injEq] at hl
    exact hl
  · next hn => exact ⟨h, fun l hl => by rw [hn] at hl; cases hl⟩

theorem qinv_sync (st : St) (h : QInv st) : QInv st.sync := by
  rcases sync_cases st with ⟨e, _⟩ | ⟨l, hl, hne, hq, e⟩
  · rw [e]; exact h
  · rw [e]
    refine ⟨escapeQuery_serialize l, ?_⟩
    intro l' hl' _
    simp only at hl'
    rw [hl] at hl'
    cases hl'
    exact parseBody_serialize_id tableOK_generated l

theorem qinv_step (st st' : St) (op : Op) (hi : QInv st) (h : step st op = .ok st') : QInv st' := by
  cases op with
  | set p v =>
    cases p with
    | href =>
      simp only [step, bind, Except.bind, pure, Except.pure] at h
      generalize hp : parseURL v true = r at h
      cases r with
      | error e => cases h
      | ok u =>
        simp only [Except.ok.injEq] at h
        subst h
        exact qinv_refresh _ (parseURL_query _ _ _ hp)
    | protocol =>
      rcases step_protocol st st' v h with e | ⟨s, u, hf, e⟩
      · rw [e]; exact hi
      · subst e
        refine qinv_same st _ rfl ?_ hi
        simp only [dropDefaultPort_rawQuery]
        exact (fixURL_query _ _ hf).2 hi.1
    | host =>
      rcases step_host st st' v h with e | ⟨_, u, hf, e⟩
      · rw [e]; exact hi
      · subst e
        refine qinv_same st _ rfl ?_ hi
        simp only [dropDefaultPort_rawQuery]
        exact (fixURL_query _ _ hf).2 hi.1
    | hostname =>
      rcases step_hostname st st' v h with e | ⟨_, _, u, hf, e⟩
      · rw [e]; exact hi
      · subst e
        exact qinv_same st _ rfl ((fixURL_query _ _ hf).2 hi.1) hi
    | search =>
      simp only [step, pure, Except.pure, Except.ok.injEq] at h
      subst h
      exact qinv_refresh _ (fixRawQuery_fixed _)
    | port =>
      simp only [step, pure, Except.pure, Except.ok.injEq] at h
      subst h
      exact qinv_same st _ rfl (setURLPort_rawQuery _ _) hi
    | username | password | pathname | hash =>
      simp only [step, pure, Except.pure, Except.ok.injEq] at h
      subst h
      exact qinv_same st _ rfl rfl hi
  | setPort v =>
    simp only [step, pure, Except.pure, Except.ok.injEq] at h
    subst h
    exact qinv_same st _ rfl (setURLPort_rawQuery _ _) hi
  | getSP =>
    simp only [step, pure, Except.pure] at h
    split at h
    · cases h; exact hi
    · cases h
      exact ⟨hi.1, fun l hl _ => by simp only [Option.some.injEq] at hl; exact hl⟩
  | spAppend k v | spDelete k v | spSet k v | spSort =>
    simp only [step, pure, Except.pure, Except.ok.injEq] at h
    subst h
    exact qinv_of_empty _ (markUpdated_rawQuery _)

theorem qinv_reach (st : St) (h : Reach st) : QInv st := by
  induction h with
  | ctor s base u hc => exact ⟨construct_query s base u hc, fun l hl => by cases hl⟩
  | step st st' op _ hs ih => exact qinv_step st st' op ih hs
  | read st _ ih => exact qinv_sync st ih

theorem searchParamsCoherent : SearchParamsCoherent := by
  intro st hr
  have hi := qinv_sync st (qinv_reach st hr)
  simp only [observe, shownQuery]
  constructor
  · by_cases hq : st.sync.url.rawQuery = []
    · left; simp [hq]
    · right; exact ⟨_, hq, by simp [hq]⟩
  · intro l hl
    by_cases hq : st.sync.url.rawQuery = []
    · simp only [hq, bne_self_eq_false, Bool.false_eq_true, if_false, List.drop_nil]
      rcases sync_cases st with ⟨e, hc⟩ | ⟨l', hl', hne, hq', e⟩
      · rw [e] at hl hq
        rcases hc with hc | hc | hc
        · rw [hc] at hl; cases hl
        · exact absurd hq hc
        · rw [hc] at hl; cases hl; rfl
      · rw [e] at hq
        simp only [serialize_eq_nil_iff] at hq
        exact absurd hq hne
    · have : (st.sync.url.rawQuery != []) = true := by simpa using hq
      simp only [this, if_true, List.drop_succ_cons, List.drop_zero]
      exact hi.2 l hl hq

/-! ## percent-encoding round trip (path, fragment, userinfo) -/

def hexUOK (c : UInt8) : Bool :=
  isHex (hexU (c >>> 4)) && isHex (hexU (c &&& 15)) && (unhex (hexU (c >>> 4)) <<< 4 ||| unhex (hexU (c &&& 15))) == c

theorem hexUOK_fin : ∀ n : Fin 256, hexUOK (UInt8.ofNat n.val) = true := by decide +kernel

theorem hexUOK_all (c : UInt8) : hexUOK c = true := by
  have h := hexUOK_fin ⟨c.toNat, c.toNat_lt⟩
  simpa [UInt8.ofNat_toNat] using h

theorem hexU_roundtrip (c : UInt8) :
    isHex (hexU (c >>> 4)) = true ∧ isHex (hexU (c &&& 15)) = true ∧
    (unhex (hexU (c >>> 4)) <<< 4 ||| unhex (hexU (c &&& 15))) = c := by
  have h := hexUOK_all c
  simp only [hexUOK, Bool.and_eq_true, beq_iff_eq] at h
  exact ⟨h.1.1, h.1.2, h.2⟩

/-- the modes of `EscapeRoundTrip` -/
def PlainMode (m : Mode) : Prop := m = .path ∨ m = .fragment ∨ m = .userPassword

theorem shouldEscape_percent (m : Mode) (hm : PlainMode m) : shouldEscape 37 m = true := by
  rcases hm with h | h | h <;> subst h <;> decide

theorem unescape_escByte (m : Mode) (hm : PlainMode m) (c : UInt8) (rest : Bytes) :
    unescapeOk m (Net.escByte m c ++ rest) = unescapeOk m rest ∧
    unescapeRaw m (Net.escByte m c ++ rest) = c :: unescapeRaw m rest := by
  have hq : (m == Mode.queryComponent) = false := by rcases hm with h | h | h <;> subst h <;> rfl
  have hh : (m == Mode.host) = false := by rcases hm with h | h | h <;> subst h <;> rfl
  have hz : (m == Mode.zone) = false := by rcases hm with h | h | h <;> subst h <;> rfl
  unfold Net.escByte
  simp only [hq, Bool.and_false, Bool.false_eq_true, if_false]
  split
  · have := hexU_roundtrip c
    simp [unescapeOk, unescapeRaw, this, hh, hz]
  · next hs =>
    have h37 : c ≠ 37 := by
      intro e; subst e; exact hs (shouldEscape_percent m hm)
    simp only [List.cons_append, List.nil_append]
    constructor
    · rw [unescapeOk.eq_def]
      split <;> simp_all
    · rw [unescapeRaw.eq_def]
      split <;> simp_all

theorem unescape_escape (m : Mode) (hm : PlainMode m) (s : Bytes) :
    unescapeOk m (Net.escape m s) = true ∧ unescapeRaw m (Net.escape m s) = s := by
  induction s with
  | nil => simp [Net.escape, unescapeOk, unescapeRaw]
  | cons c cs ih =>
    simp only [Net.escape, List.flatMap_cons] at *
    rw [(unescape_escByte m hm c _).1, (unescape_escByte m hm c _).2, ih.1, ih.2]
    exact ⟨rfl, rfl⟩

theorem escapeRoundTrip : EscapeRoundTrip := by
  intro m s hm
  have := unescape_escape m hm s
  simp [Net.unescape, this.1, this.2]

/-! ## byte-string helpers -/

theorem hasSuffix_iff (s p : Bytes) : hasSuffix s p = true ↔ ∃ a, s = a ++ p := by
  unfold hasSuffix
  rw [List.isSuffixOf_iff_suffix]
  constructor
  · rintro ⟨a, h⟩; exact ⟨a, h.symm⟩
  · rintro ⟨a, h⟩; exact ⟨a, h.symm⟩

theorem hasSuffix_append (a s : Bytes) : hasSuffix (a ++ s) s = true := (hasSuffix_iff _ _).2 ⟨a, rfl⟩

theorem trimSuffix_append (a s : Bytes) : trimSuffix (a ++ s) s = a := by
  unfold trimSuffix
  rw [hasSuffix_append]
  simp

theorem trimSuffix_of_not (s p : Bytes) (h : hasSuffix s p = false) : trimSuffix s p = s := by
  unfold trimSuffix; simp [h]

theorem trimSuffix_cases (s p : Bytes) :
    (hasSuffix s p = true ∧ s = trimSuffix s p ++ p) ∨ (hasSuffix s p = false ∧ trimSuffix s p = s) := by
  cases h : hasSuffix s p with
  | true =>
    left
    obtain ⟨a, e⟩ := (hasSuffix_iff _ _).1 h
    subst e
    rw [trimSuffix_append]; exact ⟨rfl, rfl⟩
  | false => right; exact ⟨rfl, trimSuffix_of_not s p h⟩

theorem hasPrefix_iff (s p : Bytes) : hasPrefix s p = true ↔ ∃ a, s = p ++ a := by
  unfold hasPrefix
  rw [List.isPrefixOf_iff_prefix]
  constructor
  · rintro ⟨a, h⟩; exact ⟨a, h.symm⟩
  · rintro ⟨a, h⟩; exact ⟨a, h.symm⟩

theorem indexByte_eq_none (s : Bytes) (c : UInt8) (h : c ∉ s) : indexByte s c = none := by
  unfold indexByte
  have : s.findIdx (· == c) = s.length := by
    rw [List.findIdx_eq_length]
    intro x hx
    rw [beq_eq_false_iff_ne]
    intro e; subst e; exact h hx
  simp [this]

theorem indexByte_append (a b : Bytes) (c : UInt8) (h : c ∉ a) : indexByte (a ++ c :: b) c = some a.length := by
  unfold indexByte
  have : (a ++ c :: b).findIdx (· == c) = a.length := by
    rw [List.findIdx_append]
    have : a.findIdx (· == c) = a.length := by
      rw [List.findIdx_eq_length]
      intro x hx
      rw [beq_eq_false_iff_ne]
      intro e; subst e; exact h hx
    simp [this, List.findIdx_cons]
  simp [this]

theorem lastIndexByte_eq_none (s : Bytes) (c : UInt8) (h : c ∉ s) : lastIndexByte s c = none := by
  unfold lastIndexByte
  rw [indexByte_eq_none _ _ (by simpa using h)]

theorem lastIndexByte_append (a b : Bytes) (c : UInt8) (h : c ∉ b) :
    lastIndexByte (a ++ c :: b) c = some a.length := by
  unfold lastIndexByte
  have e : (a ++ c :: b).reverse = b.reverse ++ c :: a.reverse := by simp
  rw [e, indexByte_append _ _ _ (by simpa using h)]
  simp only [List.length_append, List.length_cons, List.length_reverse]
  congr 1
  omega

theorem last_occurrence (s : Bytes) (c : UInt8) (h : c ∈ s) : ∃ a b, s = a ++ c :: b ∧ c ∉ b := by
  induction s with
  | nil => cases h
  | cons x t ih =>
    by_cases ht : c ∈ t
    · obtain ⟨a, b, e, hb⟩ := ih ht
      exact ⟨x :: a, b, by rw [e]; rfl, hb⟩
    · have : c = x := by
        cases h with
        | head => rfl
        | tail _ h' => exact absurd h' ht
      subst this
      exact ⟨[], t, rfl, ht⟩

theorem lastIndexByte_cases (s : Bytes) (c : UInt8) :
    (c ∉ s ∧ lastIndexByte s c = none) ∨
    (∃ a b, s = a ++ c :: b ∧ c ∉ b ∧ lastIndexByte s c = some a.length) := by
  by_cases h : c ∈ s
  · right
    obtain ⟨a, b, e, hb⟩ := last_occurrence s c h
    exact ⟨a, b, e, hb, by rw [e]; exact lastIndexByte_append a b c hb⟩
  · left; exact ⟨h, lastIndexByte_eq_none s c h⟩

/-! ## host = hostname [: port] -/

theorem not_mem_of_all_digit (ds : Bytes) (h : ds.all isDigit = true) : (58 : UInt8) ∉ ds := by
  intro hm
  have := List.all_eq_true.1 h 58 hm
  revert this; decide

theorem validOptionalPort_cons (ds : Bytes) : validOptionalPort (58 :: ds) = ds.all isDigit := by
  simp [validOptionalPort]

theorem validOptionalPort_cases (opt : Bytes) (h : validOptionalPort opt = true) :
    opt = [] ∨ ∃ ds, opt = 58 :: ds ∧ ds.all isDigit = true := by
  cases opt with
  | nil => exact Or.inl rfl
  | cons c ds =>
    simp only [validOptionalPort, Bool.and_eq_true, beq_iff_eq] at h
    right; exact ⟨ds, by rw [h.1], h.2⟩

/-- the port part of a host string -/
def portOf (h : Bytes) : Bytes := (splitHostPort h).2

/-- `hostWithoutPort` as a function of the host string -/
def hwp (h : Bytes) : Bytes := if portOf h != [] then trimSuffix h (58 :: portOf h) else trimSuffix h [58]

theorem port_eq (u : URL) : u.port = portOf u.host := rfl
theorem hostWithoutPort_eq (u : URL) : hostWithoutPort u = hwp u.host := rfl

theorem portOf_append (w ds : Bytes) (h : ds.all isDigit = true) : portOf (w ++ 58 :: ds) = ds := by
  unfold portOf splitHostPort
  rw [lastIndexByte_append w ds 58 (not_mem_of_all_digit ds h)]
  simp [validOptionalPort_cons, h]

theorem portOf_spec (h : Bytes) : (portOf h).all isDigit = true ∧ (portOf h ≠ [] → ∃ w, h = w ++ 58 :: portOf h) := by
  rcases lastIndexByte_cases h 58 with ⟨_, e⟩ | ⟨a, b, e, hb, hl⟩
  · have : portOf h = [] := by unfold portOf splitHostPort; rw [e]
    rw [this]; exact ⟨rfl, fun hne => absurd rfl hne⟩
  · cases hv : b.all isDigit with
    | true =>
      have : portOf h = b := by rw [e]; exact portOf_append a b hv
      rw [this]; exact ⟨hv, fun _ => ⟨a, e⟩⟩
    | false =>
      have : portOf h = [] := by
        unfold portOf splitHostPort
        rw [hl]
        subst e
        simp [validOptionalPort_cons, hv]
      rw [this]; exact ⟨rfl, fun hne => absurd rfl hne⟩

/-- no suffix of `w` is an optional port -/
def NoPortSuffix (w : Bytes) : Prop := ∀ a ds, w = a ++ 58 :: ds → ds.all isDigit = false

theorem portOf_of_noPortSuffix (w : Bytes) (h : NoPortSuffix w) : portOf w = [] := by
  rcases lastIndexByte_cases w 58 with ⟨_, e⟩ | ⟨a, b, e, hb, hl⟩
  · unfold portOf splitHostPort; rw [e]
  · have hv := h a b e
    unfold portOf splitHostPort
    rw [hl]
    subst e
    simp [validOptionalPort_cons, hv]

theorem hwp_of_noPortSuffix (w : Bytes) (h : NoPortSuffix w) : hwp w = w := by
  unfold hwp
  rw [portOf_of_noPortSuffix w h]
  simp only [bne_self_eq_false, Bool.false_eq_true, if_false]
  apply trimSuffix_of_not
  cases hs : hasSuffix w [58] with
  | false => rfl
  | true =>
    obtain ⟨a, e⟩ := (hasSuffix_iff _ _).1 hs
    have := h a [] e
    simp at this

/-- the port-less part of a well-formed host: no colon, or bracketed -/
def GoodW (w : Bytes) : Prop := 58 ∉ w ∨ (hasPrefix w [91] = true ∧ w.getLast? = some 93)

theorem noPortSuffix_of_goodW (w : Bytes) (h : GoodW w) : NoPortSuffix w := by
  intro a ds e
  rcases h with h | ⟨_, h⟩
  · subst e; simp at h
  · cases ds with
    | nil => subst e; simp at h
    | cons d ds' =>
      subst e
      have : (a ++ 58 :: d :: ds').getLast? = (d :: ds').getLast? := by
        rw [show a ++ 58 :: d :: ds' = (a ++ [58]) ++ (d :: ds') by simp]
        rw [List.getLast?_append, List.getLast?_eq_some_getLast (List.cons_ne_nil d ds')]
        rfl
      rw [this] at h
      have hm : (93 : UInt8) ∈ d :: ds' := List.mem_of_getLast? h
      cases hall : (d :: ds').all isDigit with
      | false => rfl
      | true =>
        have := List.all_eq_true.1 hall 93 hm
        revert this; decide

theorem decomp_port (w opt : Bytes) (hw : GoodW w) (ho : validOptionalPort opt = true) :
    portOf (w ++ opt) = opt.drop 1 ∧ hwp (w ++ opt) = w := by
  rcases validOptionalPort_cases opt ho with e | ⟨ds, e, hd⟩
  · subst e
    simp only [List.append_nil, List.drop_nil]
    exact ⟨portOf_of_noPortSuffix w (noPortSuffix_of_goodW w hw), hwp_of_noPortSuffix w (noPortSuffix_of_goodW w hw)⟩
  · subst e
    have hp := portOf_append w ds hd
    refine ⟨by simpa using hp, ?_⟩
    unfold hwp
    rw [hp]
    cases ds with
    | nil => simp only [bne_self_eq_false, Bool.false_eq_true, if_false]; exact trimSuffix_append w [58]
    | cons d ds' =>
      have : ((d :: ds') != []) = true := by simp
      simp only [this, if_true]
      exact trimSuffix_append w (58 :: d :: ds')


theorem portIsNumber : PortIsNumber := by
  intro st _
  exact (portOf_spec _).1

/-- a host string splits into a port-less part and an optional port -/
def Decomp (h w opt : Bytes) : Prop := h = w ++ opt ∧ GoodW w ∧ validOptionalPort opt = true

/-- the invariant behind `HostIsHostnamePort` and `DefaultPortHidden` -/
def HostInv (u : URL) : Prop :=
  ∃ w opt, Decomp u.host w opt ∧ opt ≠ [58] ∧ ∀ n, atoi (opt.drop 1) = some n → isDefaultURLPort u.scheme n = false

theorem hostInv_obs (u : URL) (h : HostInv u) :
    u.host = hostWithoutPort u ++ (if u.port = [] then [] else 58 :: u.port) ∧
    ∀ n, atoi u.port = some n → isDefaultURLPort u.scheme n = false := by
  obtain ⟨w, opt, ⟨e, hw, ho⟩, hne, hd⟩ := h
  have ⟨hp, hh⟩ := decomp_port w opt hw ho
  rw [hostWithoutPort_eq, port_eq, e, hp, hh]
  refine ⟨?_, hd⟩
  rcases validOptionalPort_cases opt ho with e' | ⟨ds, e', _⟩
  · subst e'; simp
  · subst e'
    cases ds with
    | nil => exact absurd rfl hne
    | cons d ds' => simp

theorem sync_url_host (st : St) : st.sync.url.host = st.url.host ∧ st.sync.url.scheme = st.url.scheme := by
  rcases sync_cases st with ⟨e, _⟩ | ⟨l, _, _, _, e⟩ <;> rw [e] <;> exact ⟨rfl, rfl⟩

theorem hostInv_congr (u u' : URL) (hh : u'.host = u.host) (hs : u'.scheme = u.scheme) (h : HostInv u) : HostInv u' := by
  unfold HostInv at *
  rw [hh, hs]; exact h

theorem last_not_colon (w d : Bytes) (x : UInt8) (hd : (x :: d).all isDigit = true) :
    hasSuffix (w ++ 58 :: x :: d) [58] = false := by
  cases hs : hasSuffix (w ++ 58 :: x :: d) [58] with
  | false => rfl
  | true =>
    obtain ⟨a, e⟩ := (hasSuffix_iff _ _).1 hs
    have h1 : (w ++ 58 :: x :: d).getLast? = some 58 := by rw [e]; simp
    rw [show w ++ 58 :: x :: d = (w ++ [58]) ++ (x :: d) by simp, List.getLast?_append,
      List.getLast?_eq_some_getLast (List.cons_ne_nil x d)] at h1
    simp only [Option.some_or, Option.some.injEq] at h1
    have hm : (58 : UInt8) ∈ x :: d := by rw [← h1]; exact List.getLast_mem _
    exact absurd hm (not_mem_of_all_digit _ hd)

theorem trim_decomp (w opt : Bytes) (hw : GoodW w) (ho : validOptionalPort opt = true) :
    ∃ opt1, trimSuffix (w ++ opt) [58] = w ++ opt1 ∧ validOptionalPort opt1 = true ∧ opt1 ≠ [58] ∧
      opt1.drop 1 = opt.drop 1 := by
  rcases validOptionalPort_cases opt ho with e | ⟨ds, e, hd⟩
  · subst e
    refine ⟨[], ?_, rfl, by simp, rfl⟩
    have := hwp_of_noPortSuffix w (noPortSuffix_of_goodW w hw)
    unfold hwp at this
    rw [portOf_of_noPortSuffix w (noPortSuffix_of_goodW w hw)] at this
    simpa using this
  · subst e
    cases ds with
    | nil => exact ⟨[], by rw [List.append_nil]; exact trimSuffix_append w [58], rfl, by simp, rfl⟩
    | cons x d =>
      refine ⟨58 :: x :: d, trimSuffix_of_not _ _ (last_not_colon w d x hd), ho, by simp, rfl⟩


def lowerByte (c : UInt8) : UInt8 := if 65 ≤ c && c ≤ 90 then c + 32 else c

theorem toLowerAscii_eq (s : Bytes) : toLowerAscii s = s.map lowerByte := rfl

theorem lowerByte_facts_fin : ∀ n : Fin 256,
    ((lowerByte (UInt8.ofNat n.val) == 58) == (UInt8.ofNat n.val == 58)) &&
    (!isDigit (UInt8.ofNat n.val) || lowerByte (UInt8.ofNat n.val) == UInt8.ofNat n.val) = true := by decide +kernel

theorem lowerByte_facts (c : UInt8) : (lowerByte c = 58 ↔ c = 58) ∧ (isDigit c = true → lowerByte c = c) := by
  have h := lowerByte_facts_fin ⟨c.toNat, c.toNat_lt⟩
  simp only [UInt8.ofNat_toNat, Bool.and_eq_true, Bool.or_eq_true, beq_iff_eq, Bool.not_eq_true'] at h
  refine ⟨?_, fun hd => (of_decide_eq_true h.2).resolve_left (by simp [hd])⟩
  have h1 := h.1
  constructor
  · intro e; simpa [e] using h1
  · intro e; simpa [e] using h1

theorem toLowerAscii_opt (opt : Bytes) (h : validOptionalPort opt = true) : toLowerAscii opt = opt := by
  rcases validOptionalPort_cases opt h with e | ⟨ds, e, hd⟩
  · subst e; rfl
  · subst e
    rw [toLowerAscii_eq, List.map_cons]
    congr 1
    rw [List.all_eq_true] at hd
    conv => rhs; rw [← List.map_id ds]
    apply List.map_congr_left
    intro c hc
    exact (lowerByte_facts c).2 (hd c hc)

theorem goodW_toLower (w : Bytes) (h : GoodW w) : GoodW (toLowerAscii w) := by
  rcases h with h | ⟨hp, hl⟩
  · left
    rw [toLowerAscii_eq]
    intro hm
    obtain ⟨c, hc, e⟩ := List.mem_map.1 hm
    rw [(lowerByte_facts c).1] at e
    subst e; exact h hc
  · right
    obtain ⟨t, e⟩ := (hasPrefix_iff _ _).1 hp
    constructor
    · rw [e, toLowerAscii_eq]
      exact (hasPrefix_iff _ _).2 ⟨t.map lowerByte, by simp [lowerByte]⟩
    · rw [toLowerAscii_eq, List.getLast?_map, hl]; rfl

theorem byteArray_toList_loop (bs : ByteArray) (i : Nat) (r : List UInt8) :
    ByteArray.toList.loop bs i r = r.reverse ++ bs.data.toList.drop i := by
  fun_induction ByteArray.toList.loop bs i r with
  | case1 i r h ih =>
    rw [ih]
    have hi : i < bs.data.toList.length := by simpa using h
    rw [List.drop_eq_getElem_cons hi]
    have : bs.get! i = bs.data.toList[i] := by
      cases bs with | mk d =>
      simp only [ByteArray.get!]
      have : i < d.size := by simpa using hi
      simp [this]
    simp [this]
  | case2 i r h =>
    have : bs.data.toList.length ≤ i := by
      have h2 : bs.size = bs.data.toList.length := by
        cases bs with | mk d => simp only [ByteArray.size, Array.length_toList]
      omega
    simp [List.drop_of_length_le this]

theorem byteArray_toList (bs : ByteArray) : bs.toList = bs.data.toList := by
  simp [ByteArray.toList, byteArray_toList_loop]

/-- the bytes of a string, character by character -/
theorem utf8_bytes (cs : List Char) :
    (String.ofList cs).toUTF8.toList = cs.flatMap String.utf8EncodeChar := by
  simp [byteArray_toList, List.utf8Encode]

/-! ### `Idna.toASCII` does not introduce a colon -/

theorem asciiChar_byte (c : Char) (h : c.toNat < 128) :
    String.utf8EncodeChar c = [c.val.toUInt8] ∧ c.val.toUInt8.toNat = c.toNat := by
  have hs : c.utf8Size = 1 := by
    unfold Char.utf8Size
    have : c.val.toNat ≤ 127 := by have : c.toNat = c.val.toNat := rfl; omega
    have : c.val ≤ 127 := by rw [UInt32.le_iff_toNat_le]; simpa using this
    simp [this]
  have hn : c.val.toUInt8.toNat = c.toNat := by
    have : c.toNat = c.val.toNat := rfl
    rw [UInt32.toNat_toUInt8, ← this]; omega
  exact ⟨String.utf8EncodeChar_eq_singleton hs, hn⟩

theorem utf8Dec_bytes (l : Bytes) (cps : List Nat) (h : Idna.utf8Dec l = some cps) :
    ∃ cs : List Char, cps = cs.map Char.toNat ∧ l = cs.flatMap String.utf8EncodeChar := by
  unfold Idna.utf8Dec at h
  cases hs : String.fromUTF8? ⟨l.toArray⟩ with
  | none => rw [hs] at h; cases h
  | some s =>
    rw [hs] at h
    simp only [Option.map_some, Option.some.injEq] at h
    refine ⟨s.toList, h.symm, ?_⟩
    have hb : s.toByteArray = ⟨l.toArray⟩ := by
      unfold String.fromUTF8? at hs
      split at hs
      · cases hs; rfl
      · cases hs
    have := @String.utf8Encode_toList s
    rw [hb] at this
    have h2 := congrArg (fun b => b.data.toList) this
    simp only [List.utf8Encode, List.toList_data_toByteArray] at h2
    simpa using h2.symm

theorem basic_no_colon (l : Bytes) (cps : List Nat) (h : Idna.utf8Dec l = some cps) (hl : (58 : UInt8) ∉ l) :
    (58 : UInt8) ∉ (cps.filter (· < 128)).map Nat.toUInt8 := by
  obtain ⟨cs, e1, e2⟩ := utf8Dec_bytes l cps h
  intro hm
  obtain ⟨n, hn, en⟩ := List.mem_map.1 hm
  rw [List.mem_filter] at hn
  obtain ⟨hn, hlt⟩ := hn
  simp only [decide_eq_true_eq] at hlt
  have hn58 : n = 58 := by
    have := congrArg UInt8.toNat en
    simp only [Nat.toUInt8, UInt8.toNat_ofNat'] at this
    have h58 : (58 : UInt8).toNat = 58 := rfl
    omega
  subst hn58
  rw [e1] at hn
  obtain ⟨c, hc, ec⟩ := List.mem_map.1 hn
  obtain ⟨hb, hv⟩ := asciiChar_byte c (by omega)
  apply hl
  rw [e2, List.mem_flatMap]
  refine ⟨c, hc, ?_⟩
  rw [hb]
  have : c.val.toUInt8 = 58 := by
    apply UInt8.toNat_inj.1
    rw [hv, ec]; rfl
  simp [this]

theorem digit_ne_fin : ∀ d : Fin 36, Idna.digit d.val ≠ 58 := by decide

theorem digit_ne (d : Nat) (h : d < 36) : Idna.digit d ≠ 58 := digit_ne_fin ⟨d, h⟩

theorem encVar_nc : ∀ (f q k bias : Nat) (out : Bytes), (58 : UInt8) ∉ out → (58 : UInt8) ∉ Idna.encVar f q k bias out := by
  intro f
  induction f with
  | zero => intro q k bias out h; simpa [Idna.encVar] using h
  | succ f ih =>
    intro q k bias out h
    unfold Idna.encVar
    simp only
    generalize ht : (if k ≤ bias then 1 else if k ≥ bias + 26 then 26 else k - bias) = t
    have htb : 1 ≤ t ∧ t ≤ 26 := by
      subst ht
      split
      · omega
      · split <;> omega
    split
    · next hq =>
      intro hm
      rw [List.mem_append] at hm
      rcases hm with hm | hm
      · exact h hm
      · simp only [List.mem_singleton] at hm
        exact digit_ne q (by omega) hm.symm
    · apply ih
      intro hm
      rw [List.mem_append] at hm
      rcases hm with hm | hm
      · exact h hm
      · simp only [List.mem_singleton] at hm
        have : (q - t) % (36 - t) < 36 - t := Nat.mod_lt _ (by omega)
        exact digit_ne _ (by omega) hm.symm

theorem encInner_nc (b : Nat) (st : Idna.PSt) (r : Nat) (h : (58 : UInt8) ∉ st.out) :
    (58 : UInt8) ∉ (Idna.encInner b st r).out := by
  unfold Idna.encInner
  split
  · exact h
  · split
    · exact h
    · exact encVar_nc _ _ _ _ _ h

theorem foldl_encInner_nc (b : Nat) (s : List Nat) : ∀ st : Idna.PSt, (58 : UInt8) ∉ st.out →
    (58 : UInt8) ∉ (s.foldl (Idna.encInner b) st).out := by
  induction s with
  | nil => intro st h; exact h
  | cons r t ih => intro st h; exact ih _ (encInner_nc b st r h)

theorem encOuter_nc (s : List Nat) (b : Nat) : ∀ (f : Nat) (st : Idna.PSt), (58 : UInt8) ∉ st.out →
    (58 : UInt8) ∉ (Idna.encOuter s b f st).out := by
  intro f
  induction f with
  | zero => intro st h; exact h
  | succ f ih =>
    intro st h
    unfold Idna.encOuter
    split
    · exact h
    · apply ih
      exact foldl_encInner_nc b s _ h

theorem punyEncode_nc (l : Bytes) (cps : List Nat) (h : Idna.utf8Dec l = some cps) (hl : (58 : UInt8) ∉ l) :
    (58 : UInt8) ∉ Idna.punyEncode cps := by
  unfold Idna.punyEncode
  apply encOuter_nc
  simp only
  intro hm
  rw [List.mem_append, List.mem_append] at hm
  rcases hm with (hm | hm) | hm
  · revert hm; decide
  · exact basic_no_colon l cps h hl hm
  · split at hm
    · revert hm; decide
    · cases hm

theorem labelToASCII_nc (l a : Bytes) (h : Idna.labelToASCII l = .ok a) (hl : (58 : UInt8) ∉ l) : (58 : UInt8) ∉ a := by
  unfold Idna.labelToASCII at h
  split at h
  · cases h
  · split at h
    · cases h; exact hl
    · split at h
      · cases h
      · next cps hc =>
        split at h
        · cases h; exact punyEncode_nc l cps hc hl
        · cases h

theorem mem_splitOn (sep : UInt8) : ∀ (s l : Bytes), l ∈ splitOn sep s → ∀ x ∈ l, x ∈ s := by
  intro s
  induction s with
  | nil => intro l hl x hx; simp [splitOn] at hl; subst hl; cases hx
  | cons c cs ih =>
    intro l hl x hx
    unfold splitOn at hl
    split at hl
    · rcases List.mem_cons.1 hl with e | hl'
      · subst e; cases hx
      · exact List.mem_cons_of_mem _ (ih l hl' x hx)
    · split at hl
      · simp only [List.mem_singleton] at hl
        subst hl; simp only [List.mem_singleton] at hx; subst hx; exact List.mem_cons_self
      · next w ws hw =>
        rcases List.mem_cons.1 hl with e | hl'
        · subst e
          rcases List.mem_cons.1 hx with e | hx'
          · subst e; exact List.mem_cons_self
          · exact List.mem_cons_of_mem _ (ih w (by rw [hw]; exact List.mem_cons_self) x hx')
        · exact List.mem_cons_of_mem _ (ih l (by rw [hw]; exact List.mem_cons_of_mem _ hl') x hx)

theorem mem_intercalate (sep : Bytes) (x : UInt8) : ∀ ls : List Bytes, x ∈ sep.intercalate ls →
    x ∈ sep ∨ ∃ l ∈ ls, x ∈ l := by
  intro ls
  induction ls with
  | nil => intro h; simp at h
  | cons l t ih =>
    intro h
    cases t with
    | nil => simp only [List.intercalate_singleton] at h; exact Or.inr ⟨l, by simp, h⟩
    | cons l' t' =>
      rw [List.intercalate_cons_cons, List.mem_append, List.mem_append] at h
      rcases h with (h | h) | h
      · exact Or.inr ⟨l, by simp, h⟩
      · exact Or.inl h
      · rcases ih h with h | ⟨m, hm, hx⟩
        · exact Or.inl h
        · exact Or.inr ⟨m, List.mem_cons_of_mem _ hm, hx⟩

theorem go_nc (ch : Bytes) : ∀ (ls acc : List Bytes), (∀ l ∈ ls, (58 : UInt8) ∉ l) → (∀ a ∈ acc, (58 : UInt8) ∉ a) →
    Idna.toASCIILower.go ls (some acc) = .ok ch → (58 : UInt8) ∉ ch := by
  intro ls
  induction ls with
  | nil =>
    intro acc _ hacc h
    simp only [Idna.toASCIILower.go] at h
    cases h
    intro hm
    rcases mem_intercalate _ _ _ hm with hm | ⟨l, hl, hx⟩
    · revert hm; decide
    · exact hacc l (by simpa using hl) hx
  | cons l t ih =>
    intro acc hls hacc h
    simp only [Idna.toASCIILower.go] at h
    split at h
    · next a ha =>
      apply ih (a :: acc) (fun m hm => hls m (List.mem_cons_of_mem _ hm)) ?_ h
      intro m hm
      rcases List.mem_cons.1 hm with e | hm'
      · subst e; exact labelToASCII_nc l m ha (hls l List.mem_cons_self)
      · exact hacc m hm'
    · next r hr =>
      rw [h] at hr
      exact absurd rfl (hr ch)

theorem toASCIILower_no_colon (lh ch : Bytes) (h : Idna.toASCIILower lh = .ok ch) (hw : (58 : UInt8) ∉ lh) :
    (58 : UInt8) ∉ ch := by
  unfold Idna.toASCIILower at h
  simp only at h
  refine go_nc ch _ [] ?_ (fun a ha => by cases ha) h
  intro l hl hm
  exact hw (mem_splitOn 46 _ l hl 58 hm)

/-- a UTF-8 encoded character contains the byte `:` only if it is `:` -/
theorem mem58_encodeChar (d : Char) (h : (58 : UInt8) ∈ String.utf8EncodeChar d) : d.toNat = 58 := by
  have hv : d.toNat = d.val.toNat := rfl
  have key : ∀ n : Nat, UInt8.ofNat n = 58 → n % 256 = 58 := by
    intro n hn
    have := congrArg UInt8.toNat hn
    simpa using this
  unfold String.utf8EncodeChar at h
  simp only at h
  split at h
  · simp only [List.mem_singleton] at h
    have := key _ h.symm
    omega
  · split at h
    · simp only [List.mem_cons, List.not_mem_nil, or_false] at h
      rcases h with h | h <;> have := key _ h.symm <;> omega
    · split at h
      · simp only [List.mem_cons, List.not_mem_nil, or_false] at h
        rcases h with h | h | h <;> have := key _ h.symm <;> omega
      · simp only [List.mem_cons, List.not_mem_nil, or_false] at h
        rcases h with h | h | h | h <;> have := key _ h.symm <;> omega

theorem lowerCp_58 (n : Nat) (h : Idna.lowerCp n = 58) : n = 58 := by
  unfold Idna.lowerCp at h
  repeat' split at h
  all_goals simp only [Bool.and_eq_true, decide_eq_true_eq, bne_iff_ne, ne_eq] at *
  all_goals omega

theorem charOfNat_58 (m : Nat) (h : (Char.ofNat m).toNat = 58) : m = 58 := by
  unfold Char.ofNat at h
  split at h
  · exact h
  · have h0 : (0 : Nat) = 58 := h
    omega

/-- the decoded code points of a byte string without `:` contain no `:` -/
theorem utf8Dec_no_colon (l : Bytes) (cps : List Nat) (h : Idna.utf8Dec l = some cps) (hl : (58 : UInt8) ∉ l) :
    58 ∉ cps := by
  obtain ⟨cs, e1, e2⟩ := utf8Dec_bytes l cps h
  intro hn
  rw [e1] at hn
  obtain ⟨c, hc, ec⟩ := List.mem_map.1 hn
  obtain ⟨hb, hv⟩ := asciiChar_byte c (by omega)
  apply hl
  rw [e2, List.mem_flatMap]
  refine ⟨c, hc, ?_⟩
  rw [hb]
  have : c.val.toUInt8 = 58 := by
    apply UInt8.toNat_inj.1
    rw [hv, ec]; rfl
  simp [this]

theorem utf8Enc_no_colon (cps : List Nat) (h : ∀ n ∈ cps, n ≠ 58) : (58 : UInt8) ∉ Idna.utf8Enc cps := by
  unfold Idna.utf8Enc
  rw [utf8_bytes]
  intro hm
  obtain ⟨d, hd, hx⟩ := List.mem_flatMap.1 hm
  obtain ⟨n, hn, e⟩ := List.mem_map.1 hd
  subst e
  exact h n hn (charOfNat_58 n (mem58_encodeChar _ hx))

theorem lowerHost_no_colon (w lh : Bytes) (h : Idna.lowerHost w = some lh) (hw : (58 : UInt8) ∉ w) :
    (58 : UInt8) ∉ lh := by
  unfold Idna.lowerHost at h
  split at h
  · cases h
    intro hm
    obtain ⟨c, hc, e⟩ := List.mem_map.1 hm
    have : c = 58 := (lowerByte_facts c).1.1 (by unfold lowerByte; exact e)
    subst this
    exact hw hc
  · split at h
    · cases h
    · next cps hc =>
      split at h
      · cases h
        apply utf8Enc_no_colon
        intro n hn e
        obtain ⟨m, hm, em⟩ := List.mem_map.1 hn
        rw [e] at em
        have := lowerCp_58 m em
        subst this
        exact utf8Dec_no_colon w cps hc hw hm
      · cases h

theorem toASCII_no_colon (w ch : Bytes) (h : Idna.toASCII w = .ok ch) (hw : (58 : UInt8) ∉ w) : (58 : UInt8) ∉ ch := by
  unfold Idna.toASCII at h
  split at h
  · cases h
  · next lh hl => exact toASCIILower_no_colon lh ch h (lowerHost_no_colon w lh hl hw)

theorem fixHost_decomp (scheme host h' w opt : Bytes) (hf : fixHost scheme host = .ok h')
    (hd : Decomp host w opt) :
    ∃ w' opt', Decomp h' w' opt' ∧ opt' ≠ [58] ∧ opt'.drop 1 = opt.drop 1 := by
  obtain ⟨e, hw, ho⟩ := hd
  obtain ⟨opt1, ht, ho1, hne1, hdrop⟩ := trim_decomp w opt hw ho
  unfold fixHost at hf
  rw [e, ht] at hf
  simp only at hf
  split at hf
  · split at hf
    · cases hf
      refine ⟨toLowerAscii w, opt1, ⟨?_, goodW_toLower w hw, ho1⟩, hne1, hdrop⟩
      rw [toLowerAscii_eq, List.map_append, ← toLowerAscii_eq, ← toLowerAscii_eq, toLowerAscii_opt opt1 ho1]
    · cases hf
  · next hnb =>
    have keep : ∃ w' opt', Decomp (w ++ opt1) w' opt' ∧ opt' ≠ [58] ∧ opt'.drop 1 = opt.drop 1 :=
      ⟨w, opt1, ⟨rfl, hw, ho1⟩, hne1, hdrop⟩
    split at hf
    · -- the IDNA branch
      have hwc : (58 : UInt8) ∉ w := by
        rcases hw with h | ⟨hp, _⟩
        · exact h
        · exfalso
          obtain ⟨t, et⟩ := (hasPrefix_iff _ _).1 hp
          apply hnb
          exact (hasPrefix_iff _ _).2 ⟨t ++ opt1, by rw [et]; simp⟩
      have hwp' : hasPrefix w [91] = false := by
        cases hp : hasPrefix w [91] with
        | false => rfl
        | true =>
          exfalso
          obtain ⟨t, et⟩ := (hasPrefix_iff _ _).1 hp
          apply hnb
          exact (hasPrefix_iff _ _).2 ⟨t ++ opt1, by rw [et]; simp⟩
      have hport : (splitHostPort (w ++ opt1)).2 = opt1.drop 1 := (decomp_port w opt1 hw ho1).1
      have hname : (splitHostPort (w ++ opt1)).1 = w := by
        rcases validOptionalPort_cases opt1 ho1 with e1 | ⟨ds, e1, hds⟩
        · subst e1
          unfold splitHostPort
          rw [List.append_nil, lastIndexByte_eq_none w 58 hwc]
          simp [hwp']
        · subst e1
          unfold splitHostPort
          rw [lastIndexByte_append w ds 58 (not_mem_of_all_digit ds hds)]
          simp [validOptionalPort_cons, hds, hwp']
      rw [hport, hname] at hf
      split at hf
      · cases hf
      · cases hf
      · next ch hch =>
        split at hf
        · cases hf
          refine ⟨ch, opt1, ⟨?_, Or.inl (toASCII_no_colon w ch hch hwc), ho1⟩, hne1, hdrop⟩
          rcases validOptionalPort_cases opt1 ho1 with e1 | ⟨ds, e1, hds⟩
          · subst e1; simp
          · subst e1
            cases ds with
            | nil => exact absurd rfl hne1
            | cons x d => simp
        · cases hf; exact keep
    · cases hf; exact keep


theorem fixRawQuery_host (u : URL) : (fixRawQuery u).host = u.host ∧ (fixRawQuery u).scheme = u.scheme := by
  unfold fixRawQuery; split <;> exact ⟨rfl, rfl⟩

theorem fixURL_decomp (u u' : URL) (w opt : Bytes) (hf : fixURL u = .ok u') (hd : Decomp u.host w opt) :
    ∃ w' opt', Decomp u'.host w' opt' ∧ opt' ≠ [58] ∧ opt'.drop 1 = opt.drop 1 ∧ u'.scheme = u.scheme := by
  rw [fixURL_eq] at hf
  split at hf
  · cases hf
  · next h' hh =>
    cases hf
    obtain ⟨w', opt', h1, h2, h3⟩ := fixHost_decomp _ _ _ w opt hh hd
    exact ⟨w', opt', by rw [(fixRawQuery_host _).1]; exact h1, h2, h3, (fixRawQuery_host _).2⟩

theorem fixURL_hostInv (u u' : URL) (w opt : Bytes) (hf : fixURL u = .ok u') (hd : Decomp u.host w opt)
    (hp : ∀ n, atoi (opt.drop 1) = some n → isDefaultURLPort u.scheme n = false) : HostInv u' := by
  obtain ⟨w', opt', h1, h2, h3, h4⟩ := fixURL_decomp u u' w opt hf hd
  exact ⟨w', opt', h1, h2, by rw [h3, h4]; exact hp⟩

theorem atoi_nil : atoi [] = none := rfl

theorem clearURLPort_decomp (u : URL) (w opt : Bytes) (hd : Decomp u.host w opt) :
    Decomp (clearURLPort u).host w [] ∧ (clearURLPort u).scheme = u.scheme := by
  obtain ⟨e, hw, ho⟩ := hd
  refine ⟨⟨?_, hw, rfl⟩, rfl⟩
  show hostWithoutPort u = w ++ []
  rw [hostWithoutPort_eq, e, (decomp_port w opt hw ho).2, List.append_nil]

theorem normPort_decomp (u : URL) (w opt : Bytes) (hd : Decomp u.host w opt) :
    ∃ opt', Decomp (normPort u).host w opt' ∧ (normPort u).scheme = u.scheme ∧
      ∀ n, atoi (opt'.drop 1) = some n → isDefaultURLPort u.scheme n = false := by
  have hp : u.port = opt.drop 1 := by rw [port_eq, hd.1]; exact (decomp_port w opt hd.2.1 hd.2.2).1
  have hc := clearURLPort_decomp u w opt hd
  have clear : ∃ opt', Decomp (clearURLPort u).host w opt' ∧ (clearURLPort u).scheme = u.scheme ∧
      ∀ n, atoi (opt'.drop 1) = some n → isDefaultURLPort u.scheme n = false :=
    ⟨[], hc.1, hc.2, fun n h => by cases h⟩
  unfold normPort
  split
  · split
    · exact clear
    · next n hn =>
      split
      · exact clear
      · next hdef =>
        refine ⟨opt, hd, rfl, ?_⟩
        intro m hm
        rw [← hp, hn] at hm
        cases hm
        simpa using hdef
  · next hnil =>
    refine ⟨opt, hd, rfl, ?_⟩
    intro m hm
    simp only [bne_iff_ne, ne_eq, Decidable.not_not] at hnil
    rw [← hp, hnil] at hm
    cases hm

theorem dropDefaultPort_hostInv (u : URL) (w opt : Bytes) (hd : Decomp u.host w opt) (hne : opt ≠ [58]) :
    HostInv (dropDefaultPort u) := by
  have hp : u.port = opt.drop 1 := by rw [port_eq, hd.1]; exact (decomp_port w opt hd.2.1 hd.2.2).1
  have hc := clearURLPort_decomp u w opt hd
  unfold dropDefaultPort
  split
  · next n hn =>
    split
    · exact ⟨w, [], hc.1, by simp, fun n h => by cases h⟩
    · next hdef =>
      refine ⟨w, opt, hd, hne, ?_⟩
      intro m hm
      rw [← hp, hn] at hm
      cases hm
      simpa using hdef
  · next hn =>
    refine ⟨w, opt, hd, hne, ?_⟩
    intro m hm
    rw [← hp, hn] at hm
    cases hm


/-- what `parseHost` guarantees for a bracketed host -/
def PreB (host : Bytes) : Prop :=
  hasPrefix host [91] = true → ∃ X opt, host = X ++ 93 :: opt ∧ validOptionalPort opt = true

theorem preB_nil : PreB [] := by intro h; simp [hasPrefix] at h

theorem hwp_decomp (host : Bytes) : ∃ opt, host = hwp host ++ opt ∧ validOptionalPort opt = true := by
  unfold hwp
  by_cases hp : portOf host = []
  · rw [hp]
    simp only [bne_self_eq_false, Bool.false_eq_true, if_false]
    rcases trimSuffix_cases host [58] with ⟨_, e⟩ | ⟨_, e⟩
    · exact ⟨[58], e, rfl⟩
    · exact ⟨[], by rw [e]; simp, rfl⟩
  · obtain ⟨hd, hx⟩ := portOf_spec host
    obtain ⟨w0, e⟩ := hx hp
    have : (portOf host != []) = true := by simpa using hp
    simp only [this, if_true]
    refine ⟨58 :: portOf host, ?_, by rw [validOptionalPort_cons]; exact hd⟩
    generalize hpp : portOf host = p at *
    subst e
    rw [trimSuffix_append]

theorem decomp_of_valid (u : URL) (hv : validHostColons u = true) (hb : PreB u.host) :
    ∃ w opt, Decomp u.host w opt := by
  cases hp : hasPrefix u.host [91] with
  | true =>
    obtain ⟨X, opt, e, ho⟩ := hb hp
    refine ⟨X ++ [93], opt, by rw [e]; simp, Or.inr ⟨?_, by simp⟩, ho⟩
    obtain ⟨t, et⟩ := (hasPrefix_iff _ _).1 hp
    rw [e] at et
    cases X with
    | nil => simp at et
    | cons x X' =>
      simp only [List.cons_append, List.cons.injEq] at et
      exact (hasPrefix_iff _ _).2 ⟨X' ++ [93], by rw [et.1]; rfl⟩
  | false =>
    obtain ⟨opt, e, ho⟩ := hwp_decomp u.host
    refine ⟨hwp u.host, opt, e, Or.inl ?_, ho⟩
    unfold validHostColons at hv
    rw [hostWithoutPort_eq] at hv
    simp only [Bool.or_eq_true, Bool.not_eq_true', List.contains_eq_mem, decide_eq_false_iff_not] at hv
    rcases hv with hv | hv
    · exfalso
      obtain ⟨t, et⟩ := (hasPrefix_iff _ _).1 hv
      have : hasPrefix u.host [91] = true := (hasPrefix_iff _ _).2 ⟨t ++ opt, by rw [e, et]; simp⟩
      rw [hp] at this; cases this
    · exact hv

theorem normalizeURL_hostInv (u u' : URL) (h : normalizeURL u = .ok u')
    (hpre : PreB u.host ∨ ∃ w opt, Decomp u.host w opt) : HostInv u' := by
  obtain ⟨hv, hf⟩ := normalizeURL_ok u u' h
  have : ∃ w opt, Decomp u.host w opt := by
    rcases hpre with hb | hd
    · exact decomp_of_valid u hv hb
    · exact hd
  obtain ⟨w, opt, hd⟩ := this
  obtain ⟨opt', hd', hs, hp⟩ := normPort_decomp u w opt hd
  exact fixURL_hostInv _ _ w opt' hf hd' (by rw [hs]; exact hp)

theorem hostInv_decomp (u : URL) (h : HostInv u) : ∃ w opt, Decomp u.host w opt := by
  obtain ⟨w, opt, hd, _⟩ := h; exact ⟨w, opt, hd⟩

theorem validHost_ok (scheme host : Bytes) (h : validHost scheme host = .ok true) :
    ∃ p, ParseRequestURI (scheme ++ [58, 47, 47] ++ host) = some p ∧ p.host = host ∧ validHostColons p = true := by
  unfold validHost at h
  split at h
  · cases h
  · next p hp =>
    refine ⟨p, hp, ?_⟩
    split at h
    · cases h
    · next hc =>
      split at h
      · cases h
      · next hv =>
        simp only [Bool.or_eq_true, bne_iff_ne, ne_eq, not_or, Decidable.not_not] at hc
        simp only [Bool.not_eq_true', Bool.not_eq_false] at hv
        exact ⟨hc.1.1.1.1, hv⟩


theorem digitChar_byte (c : Char) (h : c.isDigit = true) :
    String.utf8EncodeChar c = [c.val.toUInt8] ∧ isDigit c.val.toUInt8 = true ∧
    c.val.toUInt8.toNat - 48 = c.toNat - '0'.toNat := by
  have hd := Char.isDigit_iff_toNat.1 h
  simp only [Char.reduceToNat] at hd
  have hs : c.utf8Size = 1 := by
    unfold Char.utf8Size
    have : c.val.toNat ≤ 127 := by have : c.toNat = c.val.toNat := rfl; omega
    have : c.val ≤ 127 := by rw [UInt32.le_iff_toNat_le]; simpa using this
    simp [this]
  have hn : c.val.toUInt8.toNat = c.toNat := by
    have : c.toNat = c.val.toNat := rfl
    rw [UInt32.toNat_toUInt8, ← this]; omega
  refine ⟨String.utf8EncodeChar_eq_singleton hs, ?_, by rw [hn]; rfl⟩
  unfold isDigit
  simp only [Bool.and_eq_true, decide_eq_true_eq, UInt8.le_iff_toNat_le, hn]
  exact hd

theorem digits_bytes (cs : List Char) (h : ∀ c ∈ cs, c.isDigit = true) (init : Nat) :
    (cs.flatMap String.utf8EncodeChar).all isDigit = true ∧
    (cs.flatMap String.utf8EncodeChar).foldl (fun n c => n * 10 + (c.toNat - 48)) init = Nat.ofDigitChars 10 cs init := by
  induction cs generalizing init with
  | nil => exact ⟨rfl, rfl⟩
  | cons c t ih =>
    obtain ⟨h1, h2, h3⟩ := digitChar_byte c (h c (by simp))
    have iht := fun i => ih (fun x hx => h x (by simp [hx])) i
    rw [List.flatMap_cons, h1]
    constructor
    · simp only [List.singleton_append, List.all_cons, h2, Bool.true_and]
      exact (iht 0).1
    · simp only [List.singleton_append, List.foldl_cons]
      rw [(iht _).2, Nat.ofDigitChars_cons, h3, Nat.mul_comm]

theorem itoa_spec (n : Nat) : (itoa n).all isDigit = true ∧ itoa n ≠ [] ∧ natOfDigits (itoa n) = n := by
  have e : itoa n = (Nat.toDigits 10 n).flatMap String.utf8EncodeChar := by
    unfold itoa bytesOf
    rw [Nat.toString_eq_ofList_toDigits, utf8_bytes]
  have hd : ∀ c ∈ Nat.toDigits 10 n, c.isDigit = true :=
    fun c hc => Nat.isDigit_of_mem_toDigits (by decide) (by decide) hc
  obtain ⟨h1, h2⟩ := digits_bytes _ hd 0
  rw [e]
  refine ⟨h1, ?_, ?_⟩
  · have hne : Nat.toDigits 10 n ≠ [] := Nat.toDigits_ne_nil
    cases hl : Nat.toDigits 10 n with
    | nil => exact absurd hl hne
    | cons c t =>
      rw [List.flatMap_cons]
      have := @String.utf8EncodeChar_ne_nil c
      intro h0
      exact this (List.append_eq_nil_iff.1 h0).1
  · unfold natOfDigits
    rw [h2, Nat.ofDigitChars_ten_toDigits]

def plusByte (m : Mode) (c : UInt8) : UInt8 := if c = 43 then (if m == .queryComponent then 32 else 43) else c

theorem raw_cons_ne (m : Mode) (c : UInt8) (rest : Bytes) (h : c ≠ 37) :
    unescapeRaw m (c :: rest) = plusByte m c :: unescapeRaw m rest := by
  rw [unescapeRaw.eq_def]
  unfold plusByte
  split <;> simp_all

theorem ok_cons_ne (m : Mode) (c : UInt8) (rest : Bytes) (h : c ≠ 37) (hok : unescapeOk m (c :: rest) = true) :
    unescapeOk m rest = true := by
  rw [unescapeOk.eq_def] at hok
  split at hok <;> simp_all

theorem raw_pct (m : Mode) (x y : UInt8) (rest : Bytes) :
    unescapeRaw m (37 :: x :: y :: rest) = (unhex x <<< 4 ||| unhex y) :: unescapeRaw m rest := by
  rw [unescapeRaw]

theorem ok_pct (m : Mode) (x y : UInt8) (rest : Bytes) (hok : unescapeOk m (37 :: x :: y :: rest) = true) :
    isHex x = true ∧ isHex y = true ∧ unescapeOk m rest = true ∧
    (m = .host → (unhex x < 8 && !(x == 50 && y == 53)) = false) := by
  rw [unescapeOk] at hok
  split at hok
  · cases hok
  · next h1 =>
    split at hok
    · cases hok
    · next h2 =>
      split at hok
      · cases hok
      · simp only [Bool.not_eq_true', Bool.and_eq_false_iff, not_or, Bool.not_eq_false] at h1
        refine ⟨by simpa using h1.1, by simpa using h1.2, hok, ?_⟩
        intro hm; subst hm
        simpa using h2

theorem ok_pct_short1 (m : Mode) : unescapeOk m [37] = false := by
  rw [unescapeOk.eq_def]; simp

theorem ok_pct_short2 (m : Mode) (x : UInt8) : unescapeOk m [37, x] = false := by
  rw [unescapeOk.eq_def]; simp


theorem raw_append_aux (m : Mode) (b : UInt8) (B : Bytes) (hb : isHex b = false) :
    ∀ (n : Nat) (A : Bytes), A.length ≤ n → unescapeOk m (A ++ b :: B) = true →
      unescapeRaw m (A ++ b :: B) = unescapeRaw m A ++ unescapeRaw m (b :: B) := by
  intro n
  induction n with
  | zero =>
    intro A hA _
    have : A = [] := List.eq_nil_of_length_eq_zero (by omega)
    subst this; simp [unescapeRaw]
  | succ n ih =>
    intro A hA hok
    cases A with
    | nil => simp [unescapeRaw]
    | cons c A' =>
      by_cases hc : c = 37
      · subst hc
        cases A' with
        | nil =>
          exfalso
          cases B with
          | nil => simp [ok_pct_short2] at hok
          | cons y B' =>
            have := (ok_pct m b y B' hok).1
            rw [hb] at this; cases this
        | cons x A'' =>
          cases A'' with
          | nil =>
            exfalso
            have := (ok_pct m x b B hok).2.1
            rw [hb] at this; cases this
          | cons y A3 =>
            simp only [List.cons_append] at hok ⊢
            rw [raw_pct, raw_pct, ih A3 (by simp at hA; omega) (ok_pct m x y _ hok).2.2.1]
            rfl
      · simp only [List.cons_append] at hok ⊢
        rw [raw_cons_ne m c _ hc, raw_cons_ne m c _ hc, ih A' (by simp at hA; omega) (ok_cons_ne m c _ hc hok)]
        rfl

theorem raw_append (m : Mode) (A : Bytes) (b : UInt8) (B : Bytes) (hb : isHex b = false)
    (hok : unescapeOk m (A ++ b :: B) = true) :
    unescapeRaw m (A ++ b :: B) = unescapeRaw m A ++ unescapeRaw m (b :: B) :=
  raw_append_aux m b B hb A.length A (Nat.le_refl _) hok

theorem raw_host_plain (s : Bytes) (h : (37 : UInt8) ∉ s) : unescapeRaw .host s = s := by
  induction s with
  | nil => simp [unescapeRaw]
  | cons c t ih =>
    have hc : c ≠ 37 := by intro e; subst e; simp at h
    rw [raw_cons_ne _ c t hc, ih (by intro hm; exact h (List.mem_cons_of_mem _ hm))]
    unfold plusByte
    split
    · next e => subst e; rfl
    · rfl

theorem unhex_le_fin : ∀ n : Fin 256, unhex (UInt8.ofNat n.val) ≤ 15 := by decide +kernel

theorem unhex_le (c : UInt8) : unhex c ≤ 15 := by
  have h := unhex_le_fin ⟨c.toNat, c.toNat_lt⟩
  simpa [UInt8.ofNat_toNat] using h

theorem nibble_fin : ∀ hi : Fin 16, ∀ lo : Fin 256,
    (decide (8 ≤ hi.val) && (UInt8.ofNat hi.val <<< 4 ||| UInt8.ofNat lo.val) == 91) = false := by decide +kernel

theorem nibble_ne (hi lo : UInt8) (h1 : hi ≤ 15) (h2 : 8 ≤ hi) : (hi <<< 4 ||| lo) ≠ 91 := by
  have hlt : hi.toNat < 16 := by rw [UInt8.le_iff_toNat_le] at h1; simpa using Nat.lt_succ_of_le h1
  have h := nibble_fin ⟨hi.toNat, hlt⟩ ⟨lo.toNat, lo.toNat_lt⟩
  simp only [UInt8.ofNat_toNat, Bool.and_eq_false_iff, decide_eq_false_iff_not, beq_eq_false_iff_ne] at h
  rcases h with h | h
  · exfalso; apply h; rw [UInt8.le_iff_toNat_le] at h2; simpa using h2
  · exact h

theorem hasPrefix_cons1 (c : UInt8) (t : Bytes) (x : UInt8) : hasPrefix (c :: t) [x] = (x == c) := by
  simp [hasPrefix, List.isPrefixOf]

theorem raw_host_first (a : Bytes) (hp : hasPrefix a [91] = false) (hok : unescapeOk .host a = true) :
    hasPrefix (unescapeRaw .host a) [91] = false := by
  cases a with
  | nil => simp [unescapeRaw, hasPrefix]
  | cons c t =>
    by_cases hc : c = 37
    · subst hc
      cases t with
      | nil => simp [ok_pct_short1] at hok
      | cons x t' =>
        cases t' with
        | nil => simp [ok_pct_short2] at hok
        | cons y t'' =>
          rw [raw_pct]
          have h4 := (ok_pct _ x y t'' hok).2.2.2 rfl
          have hne : (unhex x <<< 4 ||| unhex y) ≠ 91 := by
            by_cases hlt : unhex x < 8
            · have h5 : (x == 50 && y == 53) = true := by simpa [hlt] using h4
              simp only [Bool.and_eq_true, beq_iff_eq] at h5
              obtain ⟨hx, hy⟩ := h5
              subst hx; subst hy; decide
            · exact nibble_ne _ _ (unhex_le x) (by simpa [UInt8.not_lt] using hlt)
          rw [hasPrefix_cons1]
          simpa using hne.symm
    · rw [raw_cons_ne _ c t hc]
      rw [hasPrefix_cons1] at hp
      rw [hasPrefix_cons1]
      unfold plusByte
      split
      · next e => subst e; rfl
      · exact hp


theorem unescape_some (m : Mode) (s r : Bytes) (h : Net.unescape m s = some r) :
    unescapeOk m s = true ∧ r = unescapeRaw m s := by
  unfold Net.unescape at h
  split at h
  · next hok => cases h; exact ⟨hok, rfl⟩
  · cases h

theorem opt_no_percent (opt : Bytes) (h : validOptionalPort opt = true) : (37 : UInt8) ∉ 93 :: opt := by
  rcases validOptionalPort_cases opt h with e | ⟨ds, e, hd⟩
  · subst e; decide
  · subst e
    intro hm
    simp only [List.mem_cons] at hm
    rcases hm with hm | hm | hm
    · revert hm; decide
    · revert hm; decide
    · have := List.all_eq_true.1 hd 37 hm
      revert this; decide

theorem parseHost_preB (a r : Bytes) (h : parseHost a = some r) : PreB r := by
  unfold parseHost at h
  split at h
  · next hpre =>
    rcases lastIndexByte_cases a 93 with ⟨_, e⟩ | ⟨A, opt, ea, _, e⟩
    · rw [e] at h; cases h
    · rw [e] at h
      simp only at h
      have hdrop : a.drop (A.length + 1) = opt := by rw [ea]; simp
      have hdrop' : a.drop A.length = 93 :: opt := by rw [ea]; simp
      rw [hdrop, hdrop'] at h
      split at h
      · cases h
      · next hv =>
        simp only [Bool.not_eq_true', Bool.not_eq_false] at hv
        have hv : validOptionalPort opt = true := by simpa using hv
        have h3 : unescapeRaw .host (93 :: opt) = 93 :: opt := raw_host_plain _ (opt_no_percent opt hv)
        split at h
        · split at h
          · next h1 h2 h3' hu1 hu2 hu3 =>
            cases h
            have := (unescape_some _ _ _ hu3).2
            rw [h3] at this
            subst this
            intro _
            exact ⟨h1 ++ h2, opt, by simp, hv⟩
          · cases h
        · obtain ⟨hok, hr⟩ := unescape_some _ _ _ h
          subst hr
          intro _
          rw [ea] at hok ⊢
          rw [raw_append .host A 93 opt (by decide) hok, h3]
          exact ⟨_, opt, rfl, hv⟩
  · next hpre =>
    have hpre : hasPrefix a [91] = false := by simpa using hpre
    have key : ∀ r, Net.unescape .host a = some r → PreB r := by
      intro r hr
      obtain ⟨hok, e⟩ := unescape_some _ _ _ hr
      subst e
      intro hp
      rw [raw_host_first a hpre hok] at hp
      cases hp
    split at h
    · split at h
      · cases h
      · exact key r h
    · exact key r h

theorem parseAuthority_preB (a : Bytes) (u : Option User) (hst : Bytes)
    (h : parseAuthority a = some (u, hst)) : PreB hst := by
  unfold parseAuthority at h
  split at h
  · cases hp : parseHost a with
    | none => rw [hp] at h; cases h
    | some r =>
      rw [hp] at h
      simp only [Option.map_some, Option.some.injEq, Prod.mk.injEq] at h
      rw [← h.2]; exact parseHost_preB a r hp
  · split at h
    · cases h
    · next host hp =>
      have hb := parseHost_preB _ _ hp
      simp only at h
      split at h
      · cases h
      · split at h
        · cases hu : Net.unescape Mode.userPassword (List.take _ a) with
          | none => rw [hu] at h; cases h
          | some x =>
            rw [hu] at h
            simp only [Option.map_some, Option.some.injEq, Prod.mk.injEq] at h
            rw [← h.2]; exact hb
        · split at h
          · simp only [Option.some.injEq, Prod.mk.injEq] at h
            rw [← h.2]; exact hb
          · cases h


theorem setPath_preB (u u' : URL) (p : Bytes) (h : setPath u p = some u') (hb : PreB u.host) : PreB u'.host := by
  unfold setPath at h
  split at h
  · cases h
  · cases h; exact hb

theorem parse_preB (raw : Bytes) (v : Bool) (u : URL) (h : Net.parse raw v = some u) : PreB u.host := by
  unfold Net.parse at h
  split at h
  · cases h
  split at h
  · cases h
  split at h
  · cases h; exact preB_nil
  split at h
  · cases h
  · simp only at h
    split at h
    all_goals (
      simp only at h
      split at h
      · cases h; exact preB_nil
      split at h
      · cases h
      split at h
      · cases h
      split at h
      · split at h
        · cases h
        · next user host ha => exact setPath_preB _ _ _ h (parseAuthority_preB _ _ _ ha)
      · exact setPath_preB _ _ _ h preB_nil)

theorem ParseRequestURI_preB (raw : Bytes) (p : URL) (h : ParseRequestURI raw = some p) : PreB p.host :=
  parse_preB raw true p h

theorem Parse_preB (raw : Bytes) (p : URL) (h : Net.Parse raw = some p) : PreB p.host := by
  unfold Net.Parse at h
  split at h
  split at h
  · cases h
  · next url hu =>
    have hb := parse_preB _ _ _ hu
    split at h
    · cases h; exact hb
    · unfold setFragment at h
      split at h
      · cases h
      · cases h; exact hb

theorem atoi_some (s : Bytes) (n : Nat) (h : atoi s = some n) : n = natOfDigits s := by
  unfold atoi at h
  split at h
  · cases h
  · simp only at h
    split at h
    · cases h
    · cases h; rfl

theorem setURLPort_hostInv (u : URL) (v : PortArg) (h : HostInv u) : HostInv (setURLPort u v) := by
  obtain ⟨w, opt, hd, hne, hp⟩ := h
  have hc := clearURLPort_decomp u w opt hd
  have clear : HostInv (clearURLPort u) := ⟨w, [], hc.1, by simp, fun n h => by cases h⟩
  have same : HostInv u := ⟨w, opt, hd, hne, hp⟩
  unfold setURLPort
  split
  · exact same
  · split
    next portNum empty _ =>
    split
    · exact clear
    · split
      · exact same
      · split
        · exact clear
        · next hdef =>
          obtain ⟨h1, h2, h3⟩ := itoa_spec portNum.toNat
          have hh : hostWithoutPort u = w := by
            rw [hostWithoutPort_eq, hd.1]; exact (decomp_port w opt hd.2.1 hd.2.2).2
          refine ⟨w, 58 :: itoa portNum.toNat, ⟨by simp only [hh], hd.2.1, by rw [validOptionalPort_cons]; exact h1⟩,
            by simpa using h2, ?_⟩
          intro m hm
          simp only [List.drop_succ_cons, List.drop_zero] at hm
          have := atoi_some _ _ hm
          rw [h3] at this
          subst this
          simpa using hdef

theorem hostInv_step (st st' : St) (op : Op) (hi : HostInv st.url) (h : step st op = .ok st') : HostInv st'.url := by
  cases op with
  | set p v =>
    cases p with
    | href =>
      simp only [step, bind, Except.bind, pure, Except.pure] at h
      generalize hp : parseURL v true = r at h
      cases r with
      | error e => cases h
      | ok u =>
        simp only [Except.ok.injEq] at h
        subst h
        have hu : HostInv u := by
          unfold parseURL at hp
          split at hp
          · cases hp
          · next p hpp =>
            split at hp
            · cases hp
            · exact normalizeURL_hostInv _ _ hp (Or.inl (Parse_preB _ _ hpp))
        unfold St.refreshParams
        split <;> exact hu
    | protocol =>
      rcases step_protocol st st' v h with e | ⟨s, u, hf, e⟩
      · rw [e]; exact hi
      · subst e
        obtain ⟨w, opt, hd⟩ := hostInv_decomp _ hi
        obtain ⟨w', opt', h1, h2, _, _⟩ := fixURL_decomp _ u w opt hf hd
        exact dropDefaultPort_hostInv u w' opt' h1 h2
    | host =>
      rcases step_host st st' v h with e | ⟨hv, u, hf, e⟩
      · rw [e]; exact hi
      · subst e
        obtain ⟨p, hp, hph, hvc⟩ := validHost_ok _ _ hv
        obtain ⟨w, opt, hd⟩ := decomp_of_valid p hvc (ParseRequestURI_preB _ _ hp)
        rw [hph] at hd
        obtain ⟨w', opt', h1, h2, _, _⟩ := fixURL_decomp _ u w opt hf hd
        exact dropDefaultPort_hostInv u w' opt' h1 h2
    | hostname =>
      rcases step_hostname st st' v h with e | ⟨hc, _, u, hf, e⟩
      · rw [e]; exact hi
      · subst e
        obtain ⟨w, opt, hd, hne, hp⟩ := hi
        have hport : st.url.port = opt.drop 1 := by
          rw [port_eq, hd.1]; exact (decomp_port w opt hd.2.1 hd.2.2).1
        have hgw : GoodW v := Or.inl (by simpa using hc)
        by_cases hpn : st.url.port = []
        · refine fixURL_hostInv _ u v [] hf ⟨by simp [hpn], hgw, rfl⟩ (fun n hn => by cases hn)
        · have hdig : st.url.port.all isDigit = true := (portOf_spec _).1
          refine fixURL_hostInv _ u v (58 :: st.url.port) hf
            ⟨by simp [hpn], hgw, by rw [validOptionalPort_cons]; exact hdig⟩ ?_
          intro n hn
          simp only [List.drop_succ_cons, List.drop_zero] at hn
          rw [hport] at hn
          exact hp n hn
    | search =>
      simp only [step, pure, Except.pure, Except.ok.injEq] at h
      subst h
      have : HostInv (fixRawQuery { st.url with rawQuery := trimPrefix v [63] }) :=
        hostInv_congr st.url _ (fixRawQuery_host _).1 (fixRawQuery_host _).2 hi
      unfold St.refreshParams
      split <;> exact this
    | port =>
      simp only [step, pure, Except.pure, Except.ok.injEq] at h
      subst h
      exact setURLPort_hostInv _ _ hi
    | username | password | pathname | hash =>
      simp only [step, pure, Except.pure, Except.ok.injEq] at h
      subst h
      exact hostInv_congr st.url _ rfl rfl hi
  | setPort v =>
    simp only [step, pure, Except.pure, Except.ok.injEq] at h
    subst h
    exact setURLPort_hostInv _ _ hi
  | getSP =>
    simp only [step, pure, Except.pure] at h
    split at h <;> cases h <;> exact hi
  | spAppend k v | spDelete k v | spSet k v | spSort =>
    simp only [step, pure, Except.pure, Except.ok.injEq] at h
    subst h
    unfold St.markUpdated
    split <;> exact hostInv_congr st.url _ rfl rfl hi


theorem setPath_host (u u' : URL) (p : Bytes) (h : setPath u p = some u') : u'.host = u.host := by
  unfold setPath at h
  split at h
  · cases h
  · cases h; rfl

theorem setPath_getD_host (u : URL) (p : Bytes) : ((setPath u p).getD u).host = u.host := by
  cases h : setPath u p with
  | none => rfl
  | some u' => exact setPath_host u u' p h

theorem resolveReference_host (u ref : URL) :
    (resolveReference u ref).host = ref.host ∨ (resolveReference u ref).host = [] ∨
    (resolveReference u ref).host = u.host := by
  unfold resolveReference
  simp only
  split
  · left
    rw [setPath_getD_host]
    split <;> rfl
  · split
    · right; left; rfl
    · split
      · right; left; rfl
      · right; right
        rw [setPath_getD_host]

theorem parseURL_hostInv (s : Bytes) (b : Bool) (u : URL) (hp : parseURL s b = .ok u) : HostInv u := by
  unfold parseURL at hp
  split at hp
  · cases hp
  · next p hpp =>
    split at hp
    · cases hp
    · exact normalizeURL_hostInv _ _ hp (Or.inl (Parse_preB _ _ hpp))

theorem construct_hostInv (s : Bytes) (base : Option Bytes) (u : URL) (h : construct s base = .ok u) : HostInv u := by
  unfold construct at h
  split at h
  · exact parseURL_hostInv _ _ _ h
  · simp only [bind, Except.bind] at h
    split at h
    · cases h
    · next baseU hb =>
      split at h
      · cases h
      · next ref hr =>
        split at h
        · exact parseURL_hostInv _ _ _ h
        · refine normalizeURL_hostInv _ _ h ?_
          show PreB (resolveReference baseU ref).host ∨ ∃ w opt, Decomp (resolveReference baseU ref).host w opt
          rcases resolveReference_host baseU ref with e | e | e
          · rw [e]; exact Or.inl (Parse_preB _ _ hr)
          · rw [e]; exact Or.inl preB_nil
          · rw [e]; exact Or.inr (hostInv_decomp _ (parseURL_hostInv _ _ _ hb))

theorem hostInv_reach (st : St) (h : Reach st) : HostInv st.url := by
  induction h with
  | ctor s base u hc => exact construct_hostInv s base u hc
  | step st st' op _ hs ih => exact hostInv_step st st' op ih hs
  | read st _ ih => exact hostInv_congr st.url _ (sync_url_host st).1 (sync_url_host st).2 ih

theorem hostIsHostnamePort : HostIsHostnamePort := by
  intro st hr
  have hi : HostInv st.sync.url :=
    hostInv_congr st.url _ (sync_url_host st).1 (sync_url_host st).2 (hostInv_reach st hr)
  exact (hostInv_obs _ hi).1

theorem defaultPortHidden : DefaultPortHidden := by
  intro st hr n hn
  have hi : HostInv st.sync.url :=
    hostInv_congr st.url _ (sync_url_host st).1 (sync_url_host st).2 (hostInv_reach st hr)
  have := (hostInv_obs _ hi).2 n hn
  rw [(sync_url_host st).2] at this
  exact this

end GN.Url.Obj
