import GN.Url.Params

/-!
# The part of Go's `net/url` and `path` the URL class delegates to   [C13, C14]

`url/url.go` parses with `url.Parse`, validates setter values with `url.ParseRequestURI`, resolves with
`(*URL).ResolveReference`, serialises with `(*URL).String`, `EscapedPath`, `EscapedFragment`, splits the host with
`Hostname`/`Port` and cleans paths with `path.Clean`.  This file is a line-by-line functional transcription of those
library functions (Go 1.23 `net/url/url.go`, `path/path.go`) over byte lists.  It is *modelled, not verified*: the
library is outside the repository; the transcription is exercised against the real library by every C13/C14
correspondence case (each case parses, normalises, resolves and serialises through it).
-/

namespace GN.Url.Net
open GN GN.Url

inductive Mode where
  | path | pathSegment | host | zone | userPassword | queryComponent | fragment
  deriving DecidableEq, Repr, Inhabited

def isAlpha (c : UInt8) : Bool := (97 ≤ c && c ≤ 122) || (65 ≤ c && c ≤ 90)
def isDigit (c : UInt8) : Bool := 48 ≤ c && c ≤ 57

/-- `shouldEscape` -/
def shouldEscape (c : UInt8) (m : Mode) : Bool :=
  if isAlpha c || isDigit c then false
  else if (m == .host || m == .zone) &&
      [33, 36, 38, 39, 40, 41, 42, 43, 44, 59, 61, 58, 91, 93, 60, 62, 34].contains c then false
  else if [45, 95, 46, 126].contains c then false
  else if [36, 38, 43, 44, 47, 58, 59, 61, 63, 64].contains c then
    match m with
    | .path => c == 63
    | .pathSegment => c == 47 || c == 59 || c == 44 || c == 63
    | .userPassword => c == 64 || c == 47 || c == 63 || c == 58
    | .queryComponent => true
    | .fragment => false
    | _ => true
  else if m == .fragment && [33, 40, 41, 42].contains c then false
  else true

/-- first loop of `unescape`: are all `%` escapes well formed (and, in a host, allowed)? -/
def unescapeOk (m : Mode) : Bytes → Bool
  | [] => true
  | 37 :: a :: b :: rest =>
    if !(isHex a && isHex b) then false
    else if m == .host && unhex a < 8 && !(a == 50 && b == 53) then false
    else if m == .zone && !(a == 50 && b == 53) && (unhex a <<< 4 ||| unhex b) != 32
              && shouldEscape (unhex a <<< 4 ||| unhex b) .host then false
    else unescapeOk m rest
  | 37 :: _ => false
  | c :: rest =>
    if c != 43 && (m == .host || m == .zone) && c < 128 && shouldEscape c m then false
    else unescapeOk m rest

/-- second loop of `unescape` -/
def unescapeRaw (m : Mode) : Bytes → Bytes
  | [] => []
  | 37 :: a :: b :: rest => (unhex a <<< 4 ||| unhex b) :: unescapeRaw m rest
  | 43 :: rest => (if m == .queryComponent then 32 else 43) :: unescapeRaw m rest
  | c :: rest => c :: unescapeRaw m rest

def unescape (m : Mode) (s : Bytes) : Option Bytes :=
  if unescapeOk m s then some (unescapeRaw m s) else none

def hexU (n : UInt8) : UInt8 := if n < 10 then 48 + n else 55 + n

def escByte (m : Mode) (c : UInt8) : Bytes :=
  if c == 32 && m == .queryComponent then [43]
  else if shouldEscape c m then [37, hexU (c >>> 4), hexU (c &&& 15)]
  else [c]

/-- `escape` -/
def escape (m : Mode) (s : Bytes) : Bytes := s.flatMap (escByte m)

/-! ## byte-string helpers (package `strings`) -/

def hasPrefix (s p : Bytes) : Bool := p.isPrefixOf s
def hasSuffix (s p : Bytes) : Bool := p.isSuffixOf s

def indexByte (s : Bytes) (c : UInt8) : Option Nat :=
  let i := s.findIdx (· == c)
  if i < s.length then some i else none

def lastIndexByte (s : Bytes) (c : UInt8) : Option Nat :=
  match indexByte s.reverse c with
  | some i => some (s.length - 1 - i)
  | none => none

/-- `strings.Cut(s, sep)` for a one-byte separator -/
def cut (s : Bytes) (c : UInt8) : Bytes × Bytes × Bool :=
  match indexByte s c with
  | some i => (s.take i, s.drop (i + 1), true)
  | none => (s, [], false)

def countByte (s : Bytes) (c : UInt8) : Nat := s.count c

/-- `strings.Index(s, sub)` -/
def indexSub (s sub : Bytes) : Option Nat :=
  let rec go : Bytes → Nat → Option Nat
    | [], i => if sub == [] then some i else none
    | s@(_ :: t), i => if sub.isPrefixOf s then some i else go t (i + 1)
  go s 0

def toLowerAscii (s : Bytes) : Bytes := s.map fun c => if 65 ≤ c && c ≤ 90 then c + 32 else c

def containsCTL (s : Bytes) : Bool := s.any fun b => b < 32 || b == 127

/-! ## URL values -/

structure User where
  username : Bytes
  password : Bytes
  passwordSet : Bool
  deriving Repr, BEq, DecidableEq, Inhabited

structure URL where
  scheme : Bytes := []
  opaq : Bytes := []
  user : Option User := none
  host : Bytes := []
  path : Bytes := []
  rawPath : Bytes := []
  omitHost : Bool := false
  forceQuery : Bool := false
  rawQuery : Bytes := []
  fragment : Bytes := []
  rawFragment : Bytes := []
  deriving Repr, BEq, DecidableEq, Inhabited

/-- `getScheme`: `none` = error ("missing protocol scheme") -/
def getSchemeAux (raw : Bytes) : Nat → Bytes → Option (Bytes × Bytes)
  | _, [] => some ([], raw)
  | i, c :: rest =>
    if isAlpha c then getSchemeAux raw (i + 1) rest
    else if isDigit c || c == 43 || c == 45 || c == 46 then
      if i == 0 then some ([], raw) else getSchemeAux raw (i + 1) rest
    else if c == 58 then
      if i == 0 then none else some (raw.take i, rest)
    else some ([], raw)

def getScheme (raw : Bytes) : Option (Bytes × Bytes) := getSchemeAux raw 0 raw

def validOptionalPort (port : Bytes) : Bool :=
  match port with
  | [] => true
  | c :: rest => c == 58 && rest.all isDigit

def validUserinfo (s : Bytes) : Bool :=
  s.all fun r => isAlpha r || isDigit r ||
    [45, 46, 95, 58, 126, 33, 36, 38, 39, 40, 41, 42, 43, 44, 59, 61, 37, 64].contains r

/-- `parseHost` -/
def parseHost (host : Bytes) : Option Bytes :=
  if hasPrefix host [91] then
    match lastIndexByte host 93 with
    | none => none
    | some i =>
      if !validOptionalPort (host.drop (i + 1)) then none
      else match indexSub (host.take i) [37, 50, 53] with
        | some zone =>
          match unescape .host (host.take zone), unescape .zone ((host.take i).drop zone), unescape .host (host.drop i) with
          | some h1, some h2, some h3 => some (h1 ++ h2 ++ h3)
          | _, _, _ => none
        | none => unescape .host host
  else
    match lastIndexByte host 58 with
    | some i => if !validOptionalPort (host.drop i) then none else unescape .host host
    | none => unescape .host host

/-- `parseAuthority` -/
def parseAuthority (a : Bytes) : Option (Option User × Bytes) :=
  match lastIndexByte a 64 with
  | none => (parseHost a).map fun h => (none, h)
  | some i =>
    match parseHost (a.drop (i + 1)) with
    | none => none
    | some host =>
      let userinfo := a.take i
      if !validUserinfo userinfo then none
      else if !userinfo.contains 58 then
        (unescape .userPassword userinfo).map fun u => (some ⟨u, [], false⟩, host)
      else
        let (un, pw, _) := cut userinfo 58
        match unescape .userPassword un, unescape .userPassword pw with
        | some u, some p => some (some ⟨u, p, true⟩, host)
        | _, _ => none

/-- `setPath` -/
def setPath (u : URL) (p : Bytes) : Option URL :=
  match unescape .path p with
  | none => none
  | some path => some { u with path := path, rawPath := if p == escape .path path then [] else p }

/-- `setFragment` -/
def setFragment (u : URL) (f : Bytes) : Option URL :=
  match unescape .fragment f with
  | none => none
  | some frag => some { u with fragment := frag, rawFragment := if f == escape .fragment frag then [] else f }

/-- `parse(rawURL, viaRequest)` (the caller has already cut the fragment off) -/
def parse (raw : Bytes) (viaRequest : Bool) : Option URL :=
  if containsCTL raw then none
  else if raw == [] && viaRequest then none
  else if raw == [42] then some { path := [42] }
  else match getScheme raw with
  | none => none
  | some (scheme0, rest0) =>
    let scheme := toLowerAscii scheme0
    let (rest, rawQuery, forceQuery) :=
      if hasSuffix rest0 [63] && countByte rest0 63 == 1 then (rest0.dropLast, ([] : Bytes), true)
      else let (a, b, _) := cut rest0 63; (a, b, false)
    if !hasPrefix rest [47] && scheme != [] then
      some { scheme := scheme, opaq := rest, rawQuery := rawQuery, forceQuery := forceQuery }
    else if !hasPrefix rest [47] && viaRequest then none
    else if !hasPrefix rest [47] && (cut rest 47).1.contains 58 then none
    else if (scheme != [] || (!viaRequest && !hasPrefix rest [47, 47, 47])) && hasPrefix rest [47, 47] then
      let a := rest.drop 2
      let (authority, rest') := match indexByte a 47 with
        | some i => (a.take i, a.drop i)
        | none => (a, [])
      match parseAuthority authority with
      | none => none
      | some (user, host) =>
        setPath { scheme := scheme, user := user, host := host, rawQuery := rawQuery, forceQuery := forceQuery } rest'
    else
      setPath { scheme := scheme, omitHost := scheme != [] && hasPrefix rest [47],
                rawQuery := rawQuery, forceQuery := forceQuery } rest

/-- `url.Parse` -/
def Parse (raw : Bytes) : Option URL :=
  let (u, frag, _) := cut raw 35
  match parse u false with
  | none => none
  | some url => if frag == [] then some url else setFragment url frag

/-- `url.ParseRequestURI` -/
def ParseRequestURI (raw : Bytes) : Option URL := parse raw true

/-- `validEncoded` -/
def validEncoded (s : Bytes) (m : Mode) : Bool :=
  s.all fun c =>
    [33, 36, 38, 39, 40, 41, 42, 43, 44, 59, 61, 58, 64, 91, 93, 37].contains c || !shouldEscape c m

def URL.escapedPath (u : URL) : Bytes :=
  if u.rawPath != [] && validEncoded u.rawPath .path && unescape .path u.rawPath == some u.path then u.rawPath
  else if u.path == [42] then [42]
  else escape .path u.path

def URL.escapedFragment (u : URL) : Bytes :=
  if u.rawFragment != [] && validEncoded u.rawFragment .fragment
      && unescape .fragment u.rawFragment == some u.fragment then u.rawFragment
  else escape .fragment u.fragment

def User.str (u : User) : Bytes :=
  escape .userPassword u.username ++ (if u.passwordSet then 58 :: escape .userPassword u.password else [])

/-- `(*URL).String` -/
def URL.str (u : URL) : Bytes :=
  let s1 : Bytes := if u.scheme != [] then u.scheme ++ [58] else []
  let body : Bytes :=
    if u.opaq != [] then u.opaq
    else
      let auth : Bytes :=
        if u.scheme != [] || u.host != [] || u.user.isSome then
          if u.omitHost && u.host == [] && u.user.isNone then []
          else
            (if u.host != [] || u.path != [] || u.user.isSome then [47, 47] else []) ++
            (match u.user with
             | some ui => ui.str ++ [64]
             | none => []) ++
            (if u.host != [] then escape .host u.host else [])
        else []
      let path := u.escapedPath
      let slash : Bytes := if path != [] && path.head? != some 47 && u.host != [] then [47] else []
      let dot : Bytes :=
        if s1 == [] && auth == [] && slash == [] && (cut path 47).1.contains 58 then [46, 47] else []
      auth ++ slash ++ dot ++ path
  let q : Bytes := if u.forceQuery || u.rawQuery != [] then 63 :: u.rawQuery else []
  let f : Bytes := if u.fragment != [] then 35 :: u.escapedFragment else []
  s1 ++ body ++ q ++ f

/-- `splitHostPort` -/
def splitHostPort (hostPort : Bytes) : Bytes × Bytes :=
  let (host, port) := match lastIndexByte hostPort 58 with
    | some colon => if validOptionalPort (hostPort.drop colon) then (hostPort.take colon, hostPort.drop (colon + 1))
                    else (hostPort, [])
    | none => (hostPort, [])
  let host := if hasPrefix host [91] && hasSuffix host [93] then (host.drop 1).dropLast else host
  (host, port)

def URL.hostname (u : URL) : Bytes := (splitHostPort u.host).1
def URL.port (u : URL) : Bytes := (splitHostPort u.host).2
def URL.isAbs (u : URL) : Bool := u.scheme != []

/-! ## resolution -/

/-- one iteration of the element loop of `resolvePath`; state = (dst, first) -/
def resolveStep (st : Bytes × Bool) (elem : Bytes) : Bytes × Bool :=
  let (dst, first) := st
  if elem == [46] then (dst, false)
  else if elem == [46, 46] then
    let str := dst.drop 1
    match lastIndexByte str 47 with
    | none => ([47], true)
    | some idx => (47 :: str.take idx, first)
  else ((if !first then dst ++ [47] else dst) ++ elem, false)

/-- `resolvePath(base, ref)` -/
def resolvePath (base ref : Bytes) : Bytes :=
  let full : Bytes :=
    if ref == [] then base
    else if ref.head? != some 47 then
      (match lastIndexByte base 47 with
       | some i => base.take (i + 1)
       | none => []) ++ ref
    else ref
  if full == [] then []
  else
    let elems := splitOn 47 full
    let dst := (elems.foldl resolveStep ([47], true)).1
    let last := elems.getLast?.getD []
    let dst := if last == [46] || last == [46, 46] then dst ++ [47] else dst
    if dst.length > 1 && dst.getD 1 0 == 47 then dst.drop 1 else dst

/-- `(*URL).ResolveReference` -/
def resolveReference (u ref : URL) : URL :=
  let url := if ref.scheme == [] then { ref with scheme := u.scheme } else ref
  if ref.scheme != [] || ref.host != [] || ref.user.isSome then
    (setPath url (resolvePath ref.escapedPath [])).getD url
  else if ref.opaq != [] then { url with user := none, host := [], path := [] }
  else
    let url :=
      if ref.path == [] && !ref.forceQuery && ref.rawQuery == [] then
        let url := { url with rawQuery := u.rawQuery }
        if ref.fragment == [] then { url with fragment := u.fragment, rawFragment := u.rawFragment } else url
      else url
    if ref.path == [] && u.opaq != [] then
      { url with opaq := u.opaq, user := none, host := [], path := [] }
    else
      let url := { url with host := u.host, user := u.user }
      (setPath url (resolvePath u.escapedPath ref.escapedPath)).getD url

/-! ## `path.Clean` -/

/-- the backtracking loop of the `..` case: from `w`, step back to the previous `/` (not below `dotdot`) -/
def cleanBack (out : Bytes) (dotdot : Nat) : Nat → Nat
  | 0 => 0
  | w + 1 => if w + 1 > dotdot && out.getD (w + 1) 0 != 47 then cleanBack out dotdot w else w + 1

def cleanLoop (rooted : Bool) : Nat → Bytes → Bytes → Nat → Bytes
  | 0, _, out, _ => out
  | _ + 1, [], out, _ => out
  | fuel + 1, c :: rest, out, dotdot =>
    if c == 47 then cleanLoop rooted fuel rest out dotdot
    else if c == 46 && (rest == [] || rest.head? == some 47) then cleanLoop rooted fuel rest out dotdot
    else if c == 46 && rest.head? == some 46 && (rest.tail == [] || rest.tail.head? == some 47) then
      if out.length > dotdot then
        cleanLoop rooted fuel rest.tail (out.take (cleanBack out dotdot (out.length - 1))) dotdot
      else if !rooted then
        let out1 := (if out.length > 0 then out ++ [47] else out) ++ [46, 46]
        cleanLoop rooted fuel rest.tail out1 out1.length
      else cleanLoop rooted fuel rest.tail out dotdot
    else
      let out1 := if (rooted && out.length != 1) || (!rooted && out.length != 0) then out ++ [47] else out
      let seg := (c :: rest).takeWhile (· != 47)
      cleanLoop rooted fuel ((c :: rest).dropWhile (· != 47)) (out1 ++ seg) dotdot

/-- `path.Clean` -/
def pathClean (p : Bytes) : Bytes :=
  if p == [] then [46]
  else
    let rooted := p.head? == some 47
    let out := if rooted then cleanLoop true (p.length + 1) (p.drop 1) [47] 1
               else cleanLoop false (p.length + 1) p [] 0
    if out == [] then [46] else out

end GN.Url.Net
