import GN.Url.UrlObj

/-!
# C13: reachable states of the URL object and the statements claimed about them

Only definitions and statements (as `Prop`-valued definitions); the proofs are in `GN/Url/ObjLemmas.lean`, the property
theorems in `GN/Props/C13.lean`.
-/

namespace GN.Url.Obj
open GN GN.Url GN.Url.Net

/-- every state a script can bring a URL object into: construct it, then any sequence of setter assignments and
searchParams operations that return normally (one that throws leaves the state as it was), with getters read at any
point in between (reading `href`, `toString()`, `toJSON()` or `search` synchronises the query) -/
inductive Reach : St → Prop where
  | ctor (s : Bytes) (base : Option Bytes) (u : URL) : construct s base = .ok u → Reach { url := u }
  | step (st st' : St) (op : Op) : Reach st → step st op = .ok st' → Reach st'
  | read (st : St) : Reach st → Reach (observe st).1

/-- the query as the getters show it -/
def shownQuery (o : Obs) : Bytes := o.search.drop 1

/-- **searchParams lists exactly the pairs of the query**, in every reachable state in which a searchParams object
exists — in particular right after `search` or `href` was assigned and right after searchParams was changed; and
`search` is `''` or `'?'` followed by that (non-empty) query -/
def SearchParamsCoherent : Prop :=
  ∀ st, Reach st →
    let o := (observe st).2
    (o.search = [] ∨ ∃ q, q ≠ [] ∧ o.search = 63 :: q) ∧
    ∀ l, o.params = some l → parseParams (shownQuery o) = l

/-- … and `href` (= `toString()` = `toJSON()`: one function in the model, three getters compared with it by the
correspondence) is the serialisation of the same synchronised state `search` is read from -/
def HrefShowsQuery : Prop :=
  ∀ st, Reach st →
    let s := (observe st).1
    let o := (observe st).2
    o.href = s.url.str ∧ o.search = (if s.url.rawQuery != [] then 63 :: s.url.rawQuery else []) ∧
    (observe s).2 = o

/-- **host is hostname plus `:`port when a port is present** -/
def HostIsHostnamePort : Prop :=
  ∀ st, Reach st →
    let o := (observe st).2
    o.host = o.hostname ++ (if o.port = [] then [] else 58 :: o.port)

/-- **the default port of the current scheme is never shown** -/
def DefaultPortHidden : Prop :=
  ∀ st, Reach st → ∀ n, atoi (observe st).2.port = some n → isDefaultURLPort st.url.scheme n = false

/-- the shown port is a decimal number (or absent) -/
def PortIsNumber : Prop :=
  ∀ st, Reach st → (observe st).2.port.all isDigit = true

/-- percent-encoding is lossless: what `href` shows for the path, the fragment and the userinfo decodes to the stored
value again (the component-level half of "href can be parsed again") -/
def EscapeRoundTrip : Prop :=
  ∀ (m : Mode) (s : Bytes), (m = .path ∨ m = .fragment ∨ m = .userPassword) → Net.unescape m (Net.escape m s) = some s

/-- the query escaper is idempotent and leaves a serialised searchParams list alone (so re-normalising a URL never
changes its query) -/
def QueryEscapeStable : Prop :=
  (∀ q, escapeQuery (escapeQuery q) = escapeQuery q) ∧ (∀ l : Params, escapeQuery (serialize l) = serialize l)

end GN.Url.Obj
