import GN.Url.PathSpec

/-!
# C14: proofs of the statements of `GN/Url/PathSpec.lean`

Common middle: the stack-based reference normaliser `normSegs`.  A path of the grammar is `init ++ [l]` with `init` the
inner segments (non-empty, no `/`) and `l` the last segment (possibly empty); `normSegs (init ++ [l])` is
`fin (init.foldl normStep []) l`.  Each of §5.2.4 `removeDotsLoop`, `path.Clean` (+ the trailing-slash repair of
`cleanPath`) and the element loop of net/url's `resolvePath` is shown to compute the rendering of that list, by a
loop invariant relating its output buffer to the rendering of the stack.
-/

namespace GN.Url.Rfc
open GN GN.Url GN.Url.Net


/-! ## rendering -/

/-- every segment preceded by a slash -/
def rend : List Bytes → Bytes
  | [] => []
  | s :: rest => 47 :: s ++ rend rest

@[simp] theorem rend_nil : rend [] = [] := rfl
@[simp] theorem rend_cons (s : Bytes) (r : List Bytes) : rend (s :: r) = 47 :: (s ++ rend r) := rfl

theorem rend_append (a b : List Bytes) : rend (a ++ b) = rend a ++ rend b := by
  induction a with
  | nil => rfl
  | cons s a ih => simp [ih]

theorem joinSegs_cons (s : Bytes) (r : List Bytes) : joinSegs (s :: r) = s ++ rend r := by
  induction r generalizing s with
  | nil => simp [joinSegs]
  | cons t r ih =>
    rw [joinSegs, ih]
    · simp
    · simp

theorem render_eq_rend {segs : List Bytes} (h : segs ≠ []) : render segs = rend segs := by
  cases segs with
  | nil => exact absurd rfl h
  | cons s r => simp [render, joinSegs_cons]

theorem rend_concat (a : List Bytes) (l : Bytes) : rend (a ++ [l]) = rend a ++ 47 :: l := by
  simp [rend_append]

/-! ## the reference normaliser -/

/-- the last segment decides whether the result names a directory -/
def fin (st : List Bytes) (l : Bytes) : List Bytes :=
  if l = [] then st ++ [[]] else if l = [46] then st ++ [[]]
  else if l = [46, 46] then st.dropLast ++ [[]] else st ++ [l]

/-- what the stack holds: non-empty segments without `/` that are not dot segments -/
def Good (st : List Bytes) : Prop := ∀ s ∈ st, s ≠ [] ∧ (47 : UInt8) ∉ s ∧ s ≠ [46] ∧ s ≠ [46, 46]

/-- inner segments of an input: non-empty, no `/` -/
def Inner (l : List Bytes) : Prop := ∀ s ∈ l, s ≠ [] ∧ (47 : UInt8) ∉ s

theorem good_nil : Good [] := by intro s hs; cases hs

theorem Good.dropLast {st : List Bytes} (h : Good st) : Good st.dropLast :=
  fun s hs => h s (List.dropLast_subset _ hs)

theorem Good.inner {st : List Bytes} (h : Good st) : Inner st := fun s hs => ⟨(h s hs).1, (h s hs).2.1⟩

theorem normStep_dot (st : List Bytes) : normStep st [46] = st := by simp [normStep]
theorem normStep_dotdot (st : List Bytes) : normStep st [46, 46] = st.dropLast := by
  simp [normStep]
theorem normStep_other (st : List Bytes) {s : Bytes} (h1 : s ≠ [46]) (h2 : s ≠ [46, 46]) :
    normStep st s = st ++ [s] := by
  simp [normStep, h1, h2]

theorem Good.step {st : List Bytes} (h : Good st) {s : Bytes} (h0 : s ≠ []) (h47 : (47 : UInt8) ∉ s) :
    Good (normStep st s) := by
  by_cases h1 : s = [46]
  · subst h1; rw [normStep_dot]; exact h
  by_cases h2 : s = [46, 46]
  · subst h2; rw [normStep_dotdot]; exact h.dropLast
  rw [normStep_other st h1 h2]
  intro t ht
  rcases List.mem_append.1 ht with ht | ht
  · exact h t ht
  · simp at ht; subst ht; exact ⟨h0, h47, h1, h2⟩

theorem Good.foldl {l : List Bytes} (hl : Inner l) {st : List Bytes} (h : Good st) :
    Good (l.foldl normStep st) := by
  induction l generalizing st with
  | nil => exact h
  | cons s l ih =>
    simp only [List.foldl_cons]
    exact ih (fun t ht => hl t (List.mem_cons_of_mem _ ht)) (h.step (hl s (by simp)).1 (hl s (by simp)).2)

theorem foldl_good {l : List Bytes} (hl : Good l) (st : List Bytes) : l.foldl normStep st = st ++ l := by
  induction l generalizing st with
  | nil => simp
  | cons s l ih =>
    have hs := hl s (by simp)
    simp only [List.foldl_cons]
    rw [normStep_other st hs.2.2.1 hs.2.2.2, ih (fun t ht => hl t (List.mem_cons_of_mem _ ht))]
    simp

theorem filter_inner {l : List Bytes} (hl : Inner l) : l.filter (· != []) = l := by
  rw [List.filter_eq_self]
  intro s hs
  simp [(hl s hs).1]

theorem segsOK_split {segs : List Bytes} (h : SegsOK segs) :
    ∃ init l, segs = init ++ [l] ∧ Inner init ∧ (47 : UInt8) ∉ l := by
  obtain ⟨hne, h47, hmid⟩ := h
  rcases List.eq_nil_or_concat segs with h | ⟨init, l, h⟩
  · exact absurd h hne
  · subst h
    refine ⟨init, l, by simp, ?_, h47 l (by simp)⟩
    intro s hs
    refine ⟨hmid s (by simpa using hs), h47 s (by simp [hs])⟩

theorem segsOK_concat {init : List Bytes} {l : Bytes} (hi : Inner init) (hl : (47 : UInt8) ∉ l) :
    SegsOK (init ++ [l]) := by
  refine ⟨by simp, ?_, ?_⟩
  · intro s hs
    rcases List.mem_append.1 hs with hs | hs
    · exact (hi s hs).2
    · simp at hs; subst hs; exact hl
  · intro s hs
    rw [List.dropLast_concat] at hs
    exact (hi s hs).1

/-- the stack the reference normaliser builds from the inner segments -/
theorem normSegs_concat {init : List Bytes} (hi : Inner init) (l : Bytes) :
    normSegs (init ++ [l]) = fin (init.foldl normStep []) l := by
  unfold normSegs fin
  simp only [List.getLast?_concat, List.filter_append, filter_inner hi, List.foldl_append]
  by_cases h0 : l = []
  · subst h0; simp
  by_cases h1 : l = [46]
  · subst h1; simp [isDot, normStep_dot]
  by_cases h2 : l = [46, 46]
  · subst h2; simp [isDot, normStep_dotdot]
  simp [h0, h1, h2, isDot, normStep_other _ h1 h2]

theorem fin_ne_nil (st : List Bytes) (l : Bytes) : fin st l ≠ [] := by
  unfold fin; repeat' split
  all_goals simp

/-- shape of the result: a good stack, then either an empty segment or nothing (the stack being non-empty) -/
theorem fin_shape {st : List Bytes} (h : Good st) {l : Bytes} (hl : (47 : UInt8) ∉ l) :
    ∃ st', Good st' ∧ (fin st l = st' ++ [[]] ∨ (fin st l = st' ∧ st' ≠ [])) := by
  unfold fin
  by_cases h0 : l = []
  · exact ⟨st, h, by simp [h0]⟩
  by_cases h1 : l = [46]
  · exact ⟨st, h, by simp [h1]⟩
  by_cases h2 : l = [46, 46]
  · exact ⟨st.dropLast, h.dropLast, by simp [h2]⟩
  refine ⟨st ++ [l], ?_, by simp [h0, h1, h2]⟩
  have := h.step h0 hl
  rwa [normStep_other st h1 h2] at this

theorem noDotSegmentsLeft : NoDotSegmentsLeft := by
  intro segs hok s hs
  obtain ⟨init, l, rfl, hi, hl⟩ := segsOK_split hok
  rw [normSegs_concat hi] at hs
  obtain ⟨st', hg, h | ⟨h, _⟩⟩ := fin_shape (Good.foldl hi good_nil) hl
  · rw [h] at hs
    rcases List.mem_append.1 hs with hs | hs
    · have := hg s hs; simp [isDot, this.2.2.1, this.2.2.2]
    · simp at hs; subst hs; simp [isDot]
  · rw [h] at hs
    have := hg s hs; simp [isDot, this.2.2.1, this.2.2.2]

theorem good_getLast_ne {st : List Bytes} (h : Good st) : st.getLast? ≠ some [] := by
  intro hl
  have := List.mem_of_getLast? hl
  exact (h _ this).1 rfl

theorem trailingSlashKept : TrailingSlashKept := by
  intro segs hok
  obtain ⟨init, l, rfl, hi, hl⟩ := segsOK_split hok
  rw [normSegs_concat hi]
  simp only [List.getLast?_concat, List.filter_append, filter_inner hi, List.foldl_append, Option.some.injEq]
  have hg : Good (init.foldl normStep []) := Good.foldl hi good_nil
  unfold fin
  by_cases h0 : l = []
  · subst h0; simp
  by_cases h1 : l = [46]
  · subst h1; simp
  by_cases h2 : l = [46, 46]
  · subst h2; simp
  have hg' := hg.step h0 hl
  rw [normStep_other _ h1 h2] at hg'
  simp [h0, h1, h2, normStep_other _ h1 h2]

theorem normIdempotent : NormIdempotent := by
  intro segs hok
  obtain ⟨init, l, rfl, hi, hl⟩ := segsOK_split hok
  rw [normSegs_concat hi]
  obtain ⟨st', hg, h | ⟨h, hne⟩⟩ := fin_shape (Good.foldl hi good_nil) hl
  · rw [h]
    refine ⟨segsOK_concat hg.inner (by simp), ?_⟩
    rw [normSegs_concat hg.inner, foldl_good hg]; simp [fin]
  · rw [h]
    rcases List.eq_nil_or_concat st' with h' | ⟨i', l', h'⟩
    · exact absurd h' hne
    · simp only [List.concat_eq_append] at h'
      subst h'
      have hgi : Good i' := fun s hs => hg s (by simp [hs])
      have hl' := hg l' (by simp)
      refine ⟨segsOK_concat hgi.inner hl'.2.1, ?_⟩
      rw [normSegs_concat hgi.inner, foldl_good hgi]
      simp [fin, hl'.1, hl'.2.2.1, hl'.2.2.2]


/-! ## byte-string helpers -/

theorem indexByte_none {l : Bytes} {c : UInt8} (h : c ∉ l) : indexByte l c = none := by
  unfold indexByte
  have : ¬ List.findIdx (· == c) l < l.length := by
    rw [List.findIdx_lt_length]
    simpa using h
  simp [this]

theorem indexByte_append_cons {l : Bytes} {c : UInt8} (h : c ∉ l) (t : Bytes) :
    indexByte (l ++ c :: t) c = some l.length := by
  unfold indexByte
  have h1 : List.findIdx (· == c) (l ++ c :: t) = l.length := by
    rw [List.findIdx_append]
    have : ¬ List.findIdx (· == c) l < l.length := by
      rw [List.findIdx_lt_length]
      simpa using h
    simp [this, List.findIdx_cons]
  simp [h1]

theorem lastIndexByte_none {l : Bytes} {c : UInt8} (h : c ∉ l) : lastIndexByte l c = none := by
  unfold lastIndexByte
  rw [indexByte_none (by simpa using h)]

theorem lastIndexByte_append_cons {l : Bytes} {c : UInt8} (h : c ∉ l) (pre : Bytes) :
    lastIndexByte (pre ++ c :: l) c = some pre.length := by
  unfold lastIndexByte
  have : (pre ++ c :: l).reverse = l.reverse ++ c :: pre.reverse := by simp
  rw [this, indexByte_append_cons (by simpa using h)]
  simp

theorem dropLastSegment_nil : dropLastSegment [] = [] := by
  simp [dropLastSegment, lastIndexByte_none]

theorem dropLastSegment_append_cons {l : Bytes} (h : (47 : UInt8) ∉ l) (pre : Bytes) :
    dropLastSegment (pre ++ 47 :: l) = pre := by
  simp [dropLastSegment, lastIndexByte_append_cons h]

theorem dropLastSegment_rend {st : List Bytes} (h : Inner st) : dropLastSegment (rend st) = rend st.dropLast := by
  rcases List.eq_nil_or_concat st with h' | ⟨i, l, h'⟩
  · subst h'; simp [dropLastSegment_nil]
  · simp only [List.concat_eq_append] at h'
    subst h'
    rw [rend_concat, dropLastSegment_append_cons (h l (by simp)).2, List.dropLast_concat]

theorem takeWhile_seg {s : Bytes} (h : (47 : UInt8) ∉ s) (r : List Bytes) :
    (s ++ rend r).takeWhile (· != 47) = s := by
  induction s with
  | nil => cases r <;> simp
  | cons c s ih =>
    simp at h
    have hc : c ≠ 47 := fun hc => h.1 hc.symm
    simp [hc, ih h.2]

theorem dropWhile_seg {s : Bytes} (h : (47 : UInt8) ∉ s) (r : List Bytes) :
    (s ++ rend r).dropWhile (· != 47) = rend r := by
  induction s with
  | nil => cases r <;> simp
  | cons c s ih =>
    simp at h
    have hc : c ≠ 47 := fun hc => h.1 hc.symm
    simp [hc, ih h.2]

/-! ## §5.2.4 on a rendered segment list -/

theorem loop_nil (f : Nat) (out : Bytes) : removeDotsLoop f [] out = out := by
  cases f <;> simp [removeDotsLoop]

theorem step_seg (f : Nat) {s : Bytes} (h47 : (47 : UInt8) ∉ s) (h1 : s ≠ [46]) (h2 : s ≠ [46, 46])
    (r : List Bytes) (out : Bytes) :
    removeDotsLoop (f + 1) (47 :: (s ++ rend r)) out = removeDotsLoop f (rend r) (out ++ 47 :: s) := by
  rw [removeDotsLoop.eq_3]
  have hseg : (47 :: List.takeWhile (fun x => x != 47) (s ++ rend r)) = 47 :: s := by rw [takeWhile_seg h47]
  have c3 : hasPrefix (47 :: (s ++ rend r)) [47, 46, 47] = false := by
    rcases s with _ | ⟨c, _ | ⟨d, s⟩⟩
    · cases r <;> simp [hasPrefix, List.isPrefixOf]
    · cases r <;> simp_all [hasPrefix, List.isPrefixOf] <;> grind
    · simp_all [hasPrefix, List.isPrefixOf]
  have c4 : (47 :: (s ++ rend r) == [47, 46]) = false := by
    rcases s with _ | ⟨c, _ | ⟨d, s⟩⟩
    · cases r <;> simp
    · cases r <;> simp_all
    · simp
  have c5 : hasPrefix (47 :: (s ++ rend r)) [47, 46, 46, 47] = false := by
    rcases s with _ | ⟨c, _ | ⟨d, _ | ⟨e, s⟩⟩⟩
    · cases r <;> simp [hasPrefix, List.isPrefixOf]
    · cases r <;> simp [hasPrefix, List.isPrefixOf]
    · cases r <;> simp_all [hasPrefix, List.isPrefixOf] <;> grind
    · simp_all [hasPrefix, List.isPrefixOf]
  have c6 : (47 :: (s ++ rend r) == [47, 46, 46]) = false := by
    rcases s with _ | ⟨c, _ | ⟨d, _ | ⟨e, s⟩⟩⟩
    · cases r <;> simp
    · cases r <;> simp
    · cases r <;> simp_all
    · simp
  simp only [c3, c4, c5, c6, hseg]
  simp [hasPrefix]

theorem step_dot_mid (f : Nat) {r : List Bytes} (hr : r ≠ []) (out : Bytes) :
    removeDotsLoop (f + 1) (47 :: ([46] ++ rend r)) out = removeDotsLoop f (rend r) out := by
  rw [removeDotsLoop.eq_3]
  cases r with
  | nil => exact absurd rfl hr
  | cons t r => simp [hasPrefix]

theorem step_dotdot_mid (f : Nat) {r : List Bytes} (hr : r ≠ []) (out : Bytes) :
    removeDotsLoop (f + 1) (47 :: ([46, 46] ++ rend r)) out = removeDotsLoop f (rend r) (dropLastSegment out) := by
  rw [removeDotsLoop.eq_3]
  cases r with
  | nil => exact absurd rfl hr
  | cons t r => simp [hasPrefix]

theorem step_slash (f : Nat) (out : Bytes) : removeDotsLoop (f + 1) [47] out = out ++ [47] := by
  have := step_seg f (s := []) (by simp) (by simp) (by simp) [] out
  simpa [loop_nil] using this

theorem step_dot_end (f : Nat) (out : Bytes) : removeDotsLoop (f + 2) [47, 46] out = out ++ [47] := by
  rw [removeDotsLoop.eq_3]
  simp [hasPrefix, step_slash]

theorem step_dotdot_end (f : Nat) (out : Bytes) :
    removeDotsLoop (f + 2) [47, 46, 46] out = dropLastSegment out ++ [47] := by
  rw [removeDotsLoop.eq_3]
  simp [hasPrefix, step_slash]

theorem rend_length_pos {r : List Bytes} (hr : r ≠ []) : 0 < (rend r).length := by
  cases r with
  | nil => exact absurd rfl hr
  | cons t r => simp

theorem loop_rend {init : List Bytes} (hi : Inner init) {l : Bytes} (hl : (47 : UInt8) ∉ l) :
    ∀ {st : List Bytes}, Good st → ∀ fuel, (rend (init ++ [l])).length ≤ fuel →
      removeDotsLoop fuel (rend (init ++ [l])) (rend st) = rend (fin (init.foldl normStep st) l) := by
  induction init with
  | nil =>
    intro st hg fuel hf
    simp only [List.nil_append, rend_cons, rend_nil, List.append_nil, List.foldl_nil]
    simp at hf
    unfold fin
    by_cases h0 : l = []
    · subst h0
      obtain ⟨f, rfl⟩ : ∃ f, fuel = f + 1 := ⟨fuel - 1, by simp at hf; omega⟩
      simp [step_slash, rend_append]
    by_cases h1 : l = [46]
    · subst h1
      obtain ⟨f, rfl⟩ : ∃ f, fuel = f + 2 := ⟨fuel - 2, by simp at hf; omega⟩
      simp [step_dot_end, rend_append]
    by_cases h2 : l = [46, 46]
    · subst h2
      obtain ⟨f, rfl⟩ : ∃ f, fuel = f + 2 := ⟨fuel - 2, by simp at hf; omega⟩
      simp [step_dotdot_end, rend_append, dropLastSegment_rend hg.inner]
    · obtain ⟨f, rfl⟩ : ∃ f, fuel = f + 1 := ⟨fuel - 1, by omega⟩
      have := step_seg f hl h1 h2 [] (rend st)
      simp only [rend_nil, List.append_nil] at this
      rw [this, loop_nil]
      simp [h0, h1, h2, rend_append]
  | cons s init ih =>
    intro st hg fuel hf
    have hs := hi s (by simp)
    have hi' : Inner init := fun t ht => hi t (List.mem_cons_of_mem _ ht)
    simp only [List.cons_append, rend_cons, List.foldl_cons]
    simp only [List.cons_append, rend_cons, List.length_cons, List.length_append] at hf
    have hpos := rend_length_pos (r := init ++ [l]) (by simp)
    obtain ⟨f, rfl⟩ : ∃ f, fuel = f + 1 := ⟨fuel - 1, by omega⟩
    by_cases h1 : s = [46]
    · subst h1
      rw [step_dot_mid f (by simp), normStep_dot]
      exact ih hi' hg f (by simp at hf; omega)
    by_cases h2 : s = [46, 46]
    · subst h2
      rw [step_dotdot_mid f (by simp), normStep_dotdot, dropLastSegment_rend hg.inner]
      exact ih hi' hg.dropLast f (by simp at hf; omega)
    · rw [step_seg f hs.2 h1 h2, normStep_other st h1 h2]
      have hg' := hg.step hs.1 hs.2
      rw [normStep_other st h1 h2] at hg'
      have := ih hi' hg' f (by omega)
      rw [rend_concat st] at this
      exact this

theorem removeDots_render {init : List Bytes} (hi : Inner init) {l : Bytes} (hl : (47 : UInt8) ∉ l) :
    removeDotSegments (render (init ++ [l])) = rend (fin (init.foldl normStep []) l) := by
  rw [render_eq_rend (by simp)]
  unfold removeDotSegments
  have := loop_rend hi hl good_nil ((rend (init ++ [l])).length + 1) (by omega)
  simpa using this

theorem removeDotsIsNorm : RemoveDotsIsNorm := by
  intro segs hok
  obtain ⟨init, l, rfl, hi, hl⟩ := segsOK_split hok
  rw [removeDots_render hi hl, normSegs_concat hi, render_eq_rend (fin_ne_nil _ _)]


/-! ## `path.Clean` on a rendered segment list -/

/-- the output buffer of a rooted `path.Clean` holding a stack -/
def cout (st : List Bytes) : Bytes := if st = [] then [47] else rend st

theorem cout_nil : cout [] = [47] := rfl
theorem cout_ne {st : List Bytes} (h : st ≠ []) : cout st = rend st := by simp [cout, h]

theorem rend_length_ge_two {st : List Bytes} (hg : Inner st) (h : st ≠ []) : 2 ≤ (rend st).length := by
  cases st with
  | nil => exact absurd rfl h
  | cons s r =>
    have := (hg s (by simp)).1
    cases s with
    | nil => exact absurd rfl this
    | cons c s => simp <;> omega

theorem cout_length {st : List Bytes} (hg : Inner st) : (cout st).length = 1 ↔ st = [] := by
  by_cases h : st = []
  · simp [h, cout]
  · have := rend_length_ge_two hg h
    simp [cout, h]; omega

theorem cleanLoop_nil (f : Nat) (out : Bytes) (dd : Nat) : cleanLoop true f [] out dd = out := by
  cases f <;> simp [cleanLoop]

theorem clean_slash (f : Nat) (inp out : Bytes) (dd : Nat) :
    cleanLoop true (f + 1) (47 :: inp) out dd = cleanLoop true f inp out dd := by
  rw [cleanLoop.eq_3]; simp

theorem clean_dot (f : Nat) (r : List Bytes) (out : Bytes) (dd : Nat) :
    cleanLoop true (f + 2) (47 :: ([46] ++ rend r)) out dd = cleanLoop true f (rend r) out dd := by
  rw [clean_slash]
  simp only [List.cons_append, List.nil_append]
  rw [cleanLoop.eq_3]
  cases r <;> simp

theorem clean_seg (f : Nat) {s : Bytes} (h0 : s ≠ []) (h47 : (47 : UInt8) ∉ s) (h1 : s ≠ [46]) (h2 : s ≠ [46, 46])
    (r : List Bytes) {st : List Bytes} (hg : Inner st) :
    cleanLoop true (f + 2) (47 :: (s ++ rend r)) (cout st) 1 = cleanLoop true f (rend r) (cout (st ++ [s])) 1 := by
  rw [clean_slash]
  have hout : ((if (true && (cout st).length != 1 || !true && (cout st).length != 0) = true then cout st ++ [47]
      else cout st) ++ s) = cout (st ++ [s]) := by
    by_cases hst : st = []
    · subst hst; simp [cout]
    · have := cout_length hg
      simp [this, hst]
      simp [cout, hst, rend_append]
  rcases s with _ | ⟨c, s⟩
  · exact absurd rfl h0
  have htw := takeWhile_seg h47 r
  have hdw := dropWhile_seg h47 r
  simp only [List.cons_append] at htw hdw ⊢
  rw [cleanLoop.eq_3]
  have hc : (c == 47) = false := by simp at h47; simpa using fun h => h47.1 h.symm
  have c2 : (c == 46 && (s ++ rend r == [] || (s ++ rend r).head? == some 47)) = false := by
    rcases s with _ | ⟨d, s⟩
    · simp_all
    · simp_all; grind
  have c3 : (c == 46 && (s ++ rend r).head? == some 46 &&
      ((s ++ rend r).tail == [] || (s ++ rend r).tail.head? == some 47)) = false := by
    rcases s with _ | ⟨d, _ | ⟨e, s⟩⟩
    · cases r <;> simp_all
    · cases r <;> simp_all
    · simp_all; grind
  simp only [hc, c2, c3, Bool.false_eq_true, if_false, htw, hdw]
  rw [hout]

theorem getD_append_cons (pre l : Bytes) (c : UInt8) (k : Nat) :
    (pre ++ c :: l).getD (pre.length + k + 1) 0 = l.getD k 0 := by
  simp [List.getD_eq_getElem?_getD, List.getElem?_append_right, Nat.add_assoc]

theorem getD_ne {l : Bytes} (h : (47 : UInt8) ∉ l) {k : Nat} (hk : k < l.length) : l.getD k 0 ≠ 47 := by
  rw [List.getD_eq_getElem?_getD, List.getElem?_eq_getElem hk]
  simp
  intro h'
  exact h (h' ▸ List.getElem_mem hk)

theorem cleanBack_pre {pre l : Bytes} (h : (47 : UInt8) ∉ l) {dd : Nat} (hdd : dd ≤ pre.length) :
    ∀ k, k ≤ l.length → cleanBack (pre ++ 47 :: l) dd (pre.length + k) = pre.length := by
  intro k
  induction k with
  | zero =>
    intro _
    cases hp : pre.length with
    | zero => simp [cleanBack]
    | succ w =>
      have h2 : (pre ++ 47 :: l)[w + 1]? = some 47 := by
        rw [← hp]; simp
      simp [cleanBack, h2, List.getD_eq_getElem?_getD]
  | succ k ih =>
    intro hk
    rw [← Nat.add_assoc, cleanBack.eq_2, getD_append_cons]
    have := getD_ne h (k := k) (by omega)
    have hc : (decide (pre.length + k + 1 > dd) && l.getD k 0 != 47) = true := by
      rw [Bool.and_eq_true]; exact ⟨decide_eq_true (by omega), bne_iff_ne.2 this⟩
    rw [if_pos hc]
    exact ih (by omega)

theorem cleanBack_root {l : Bytes} (h : (47 : UInt8) ∉ l) :
    ∀ k, k < l.length → cleanBack (47 :: l) 1 (k + 1) = 1 := by
  intro k
  induction k with
  | zero => intro _; simp [cleanBack]
  | succ k ih =>
    intro hk
    rw [cleanBack.eq_2]
    have h1 := getD_append_cons [] l 47 (k + 1)
    simp only [List.length_nil, Nat.zero_add, List.nil_append] at h1
    have := getD_ne h (k := k + 1) (by omega)
    rw [h1]
    have hc : (decide (k + 1 + 1 > 1) && l.getD (k + 1) 0 != 47) = true := by
      rw [Bool.and_eq_true]; exact ⟨decide_eq_true (by omega), bne_iff_ne.2 this⟩
    rw [if_pos hc]
    exact ih (by omega)

theorem clean_back_take {st : List Bytes} (hg : Inner st) (hne : st ≠ []) :
    (cout st).take (cleanBack (cout st) 1 ((cout st).length - 1)) = cout st.dropLast := by
  rcases List.eq_nil_or_concat st with h' | ⟨i, l, h'⟩
  · exact absurd h' hne
  simp only [List.concat_eq_append] at h'
  subst h'
  have hl := hg l (by simp)
  have hi : Inner i := fun s hs => hg s (by simp [hs])
  rw [cout_ne hne, rend_concat, List.dropLast_concat]
  by_cases hi0 : i = []
  · subst hi0
    obtain ⟨k, hk⟩ : ∃ k, l.length = k + 1 := ⟨l.length - 1, by
      have : l.length ≠ 0 := by simpa using hl.1
      omega⟩
    simp only [rend_nil, List.nil_append, List.length_cons, Nat.add_sub_cancel, hk]
    rw [cleanBack_root hl.2 k (by omega)]
    simp [cout]
  · have h2 := rend_length_ge_two hi hi0
    have := cleanBack_pre (pre := rend i) hl.2 (dd := 1) (by omega) l.length (Nat.le_refl _)
    have e : (rend i ++ 47 :: l).length - 1 = (rend i).length + l.length := by simp
    rw [e, this, cout_ne hi0]
    simp

theorem clean_dotdot (f : Nat) (r : List Bytes) {st : List Bytes} (hg : Inner st) :
    cleanLoop true (f + 2) (47 :: ([46, 46] ++ rend r)) (cout st) 1
      = cleanLoop true f (rend r) (cout st.dropLast) 1 := by
  rw [clean_slash]
  simp only [List.cons_append, List.nil_append]
  rw [cleanLoop.eq_3]
  have c1 : ((46 : UInt8) == 46 && (46 :: rend r).head? == some 46 &&
      ((46 :: rend r).tail == [] || (46 :: rend r).tail.head? == some 47)) = true := by
    cases r <;> simp
  have c0 : ((46 : UInt8) == 46 && (46 :: rend r == [] || (46 :: rend r).head? == some 47)) = false := by
    simp
  simp only [c0, c1]
  by_cases hst : st = []
  · subst hst; simp [cout]
  · have := rend_length_ge_two hg hst
    have hlen : (cout st).length > 1 := by rw [cout_ne hst]; omega
    simp only [hlen, if_true, clean_back_take hg hst]
    simp

/-- the stack after the last segment, as `path.Clean` sees it (no trailing slash) -/
def finc (st : List Bytes) (l : Bytes) : List Bytes := if l = [] then st else normStep st l

theorem clean_rend {init : List Bytes} (hi : Inner init) {l : Bytes} (hl : (47 : UInt8) ∉ l) :
    ∀ {st : List Bytes}, Good st → ∀ fuel, (rend (init ++ [l])).length ≤ fuel →
      cleanLoop true fuel (rend (init ++ [l])) (cout st) 1 = cout (finc (init.foldl normStep st) l) := by
  induction init with
  | nil =>
    intro st hg fuel hf
    simp only [List.nil_append, rend_cons, rend_nil, List.append_nil, List.foldl_nil]
    simp at hf
    unfold finc
    by_cases h0 : l = []
    · subst h0
      obtain ⟨f, rfl⟩ : ∃ f, fuel = f + 1 := ⟨fuel - 1, by simp at hf; omega⟩
      simp [clean_slash, cleanLoop_nil]
    have : 0 < l.length := List.length_pos_iff.2 h0
    obtain ⟨f, rfl⟩ : ∃ f, fuel = f + 2 := ⟨fuel - 2, by omega⟩
    by_cases h1 : l = [46]
    · subst h1
      have := clean_dot f [] (cout st) 1
      simp only [rend_nil, List.append_nil] at this
      simp [this, cleanLoop_nil, normStep_dot]
    by_cases h2 : l = [46, 46]
    · subst h2
      have := clean_dotdot f [] hg.inner
      simp only [rend_nil, List.append_nil] at this
      simp [this, cleanLoop_nil, normStep_dotdot]
    · have := clean_seg f h0 hl h1 h2 [] hg.inner
      simp only [rend_nil, List.append_nil] at this
      simp [this, cleanLoop_nil, h0, normStep_other _ h1 h2]
  | cons s init ih =>
    intro st hg fuel hf
    have hs := hi s (by simp)
    have hi' : Inner init := fun t ht => hi t (List.mem_cons_of_mem _ ht)
    simp only [List.cons_append, rend_cons, List.foldl_cons]
    simp only [List.cons_append, rend_cons, List.length_cons, List.length_append] at hf
    have hpos := rend_length_pos (r := init ++ [l]) (by simp)
    have : 0 < s.length := List.length_pos_iff.2 hs.1
    obtain ⟨f, rfl⟩ : ∃ f, fuel = f + 2 := ⟨fuel - 2, by omega⟩
    by_cases h1 : s = [46]
    · subst h1
      rw [clean_dot f, normStep_dot]
      exact ih hi' hg f (by simp at hf; omega)
    by_cases h2 : s = [46, 46]
    · subst h2
      rw [clean_dotdot f _ hg.inner, normStep_dotdot]
      exact ih hi' hg.dropLast f (by simp at hf; omega)
    · rw [clean_seg f hs.1 hs.2 h1 h2 _ hg.inner, normStep_other st h1 h2]
      have hg' := hg.step hs.1 hs.2
      rw [normStep_other st h1 h2] at hg'
      exact ih hi' hg' f (by omega)

theorem cout_ne_nil (st : List Bytes) : cout st ≠ [] := by
  unfold cout; split
  · simp
  · rename_i h; cases st with
    | nil => exact absurd rfl h
    | cons s r => simp

theorem pathClean_render {init : List Bytes} (hi : Inner init) {l : Bytes} (hl : (47 : UInt8) ∉ l) :
    pathClean (render (init ++ [l])) = cout (finc (init.foldl normStep []) l) := by
  have h := clean_rend hi hl good_nil ((rend (init ++ [l])).length + 1 + 1) (by omega)
  rw [cout_nil] at h
  have hr : render (init ++ [l]) = 47 :: joinSegs (init ++ [l]) := rfl
  have hr2 : rend (init ++ [l]) = 47 :: joinSegs (init ++ [l]) := by rw [← render_eq_rend (by simp)]; rfl
  rw [hr2, clean_slash] at h
  unfold pathClean
  rw [hr]
  simp only [List.head?_cons, List.drop_one, List.tail_cons]
  simp only [List.length_cons] at h ⊢
  simp [h, cout_ne_nil]

/-! ## the trailing-slash repair -/

theorem suffix_seg_iff {l l' : Bytes} (h : (47 : UInt8) ∉ l) (h' : (47 : UInt8) ∉ l') (pre : Bytes) :
    hasSuffix (pre ++ 47 :: l) (47 :: l') = true ↔ l' = l := by
  unfold hasSuffix
  rw [List.isSuffixOf_iff_suffix]
  constructor
  · rintro ⟨t, ht⟩
    have e1 := lastIndexByte_append_cons h' t
    have e2 := lastIndexByte_append_cons h pre
    rw [ht, e2] at e1
    have hlen : t.length = pre.length := by simpa using e1.symm
    have := (List.append_inj ht hlen).2
    simpa using this
  · rintro rfl
    exact List.suffix_append _ _

theorem repair {st : List Bytes} (hg : Inner st) :
    (if (cout st != [47] && true) = true then cout st ++ [47] else cout st) = rend (st ++ [[]]) := by
  by_cases h : st = []
  · subst h; simp [cout]
  · have := rend_length_ge_two hg h
    have hne : rend st ≠ [47] := by
      intro he; rw [he] at this; simp at this
    simp [hne, cout_ne h, rend_append]

theorem cleanPath_render {init : List Bytes} (hi : Inner init) {l : Bytes} (hl : (47 : UInt8) ∉ l) (proto : Bytes) :
    Obj.cleanPath (render (init ++ [l])) proto = rend (fin (init.foldl normStep []) l) := by
  have hg : Good (init.foldl normStep []) := Good.foldl hi good_nil
  have hp : hasPrefix (render (init ++ [l])) [47] = true := by simp [render, hasPrefix, List.isPrefixOf]
  have hne : render (init ++ [l]) ≠ [] := by simp [render]
  unfold Obj.cleanPath
  simp only [hp, Bool.not_true, Bool.false_and, Bool.false_eq_true, if_false, bne_iff_ne, ne_eq, hne,
    not_false_eq_true, if_true]
  rw [pathClean_render hi hl, render_eq_rend (by simp), rend_concat]
  have s0 := suffix_seg_iff hl (l' := []) (by simp) (rend init)
  have s1 := suffix_seg_iff hl (l' := [46]) (by simp) (rend init)
  have s2 := suffix_seg_iff hl (l' := [46, 46]) (by simp) (rend init)
  unfold fin finc
  by_cases h0 : l = []
  · subst h0
    have := repair hg.inner
    simp only [s0.2 rfl, Bool.true_or, if_true]
    exact this
  by_cases h1 : l = [46]
  · subst h1
    have := repair hg.inner
    simp only [s1.2 rfl, Bool.true_or, Bool.or_true, if_true, normStep_dot]
    simpa using this
  by_cases h2 : l = [46, 46]
  · subst h2
    have := repair hg.dropLast.inner
    simp only [s2.2 rfl, Bool.or_true, if_true, normStep_dotdot]
    simpa using this
  · have e0 : hasSuffix (rend init ++ 47 :: l) [47] = false := by
      rw [Bool.eq_false_iff]; intro h; exact h0 (s0.1 h).symm
    have e1 : hasSuffix (rend init ++ 47 :: l) [47, 46] = false := by
      rw [Bool.eq_false_iff]; intro h; exact h1 (s1.1 h).symm
    have e2 : hasSuffix (rend init ++ 47 :: l) [47, 46, 46] = false := by
      rw [Bool.eq_false_iff]; intro h; exact h2 (s2.1 h).symm
    simp [e0, e1, e2, h0, h1, h2, normStep_other _ h1 h2, cout]

theorem cleanPathIsRfc : CleanPathIsRfc := by
  intro segs proto hok
  obtain ⟨init, l, rfl, hi, hl⟩ := segsOK_split hok
  rw [cleanPath_render hi hl, removeDots_render hi hl]


/-! ## `strings.Split` on a rendered segment list -/

theorem splitOn_ne_nil (c : UInt8) (s : Bytes) : splitOn c s ≠ [] := by
  induction s with
  | nil => simp [splitOn]
  | cons d s ih =>
    rw [splitOn]
    split
    · simp
    · split
      · rename_i h; exact absurd h ih
      · simp

theorem splitOn_seg {s : Bytes} (h : (47 : UInt8) ∉ s) (r : List Bytes) :
    splitOn 47 (s ++ rend r) = s :: (match r with | [] => [] | t :: r' => splitOn 47 (t ++ rend r')) := by
  induction s with
  | nil =>
    cases r with
    | nil => simp [splitOn]
    | cons t r' => simp [splitOn]
  | cons d s ih =>
    simp at h
    have hd : d ≠ 47 := fun hd => h.1 hd.symm
    simp only [List.cons_append]
    rw [splitOn, if_neg hd, ih h.2]

theorem splitOn_join {r : List Bytes} (hr : ∀ s ∈ r, (47 : UInt8) ∉ s) (s : Bytes) (hs : (47 : UInt8) ∉ s) :
    splitOn 47 (s ++ rend r) = s :: r := by
  induction r generalizing s with
  | nil => rw [splitOn_seg hs]
  | cons t r ih =>
    rw [splitOn_seg hs]
    have := ih (fun x hx => hr x (List.mem_cons_of_mem _ hx)) t (hr t (by simp))
    simp only [this]

theorem splitOn_rend {r : List Bytes} (hr : ∀ s ∈ r, (47 : UInt8) ∉ s) (hne : r ≠ []) :
    splitOn 47 (rend r) = [] :: r := by
  cases r with
  | nil => exact absurd rfl hne
  | cons t r =>
    rw [rend_cons, splitOn, if_pos rfl,
      splitOn_join (fun x hx => hr x (List.mem_cons_of_mem _ hx)) t (hr t (by simp))]


/-! ## the element loop of `resolvePath` -/

/-- how the loop state `(dst, first)` holds a stack: with a doubled leading slash (after the empty first element), or
without it (after `..` emptied the buffer and reset `first`) -/
def Rep (st : List Bytes) (p : Bytes × Bool) : Prop :=
  p = (47 :: rend st, false) ∨ (st = [] ∧ p = ([47], true)) ∨ (st ≠ [] ∧ p = (rend st, false))

theorem resolveStep_dot (dst : Bytes) (b : Bool) : resolveStep (dst, b) [46] = (dst, false) := by
  simp [resolveStep]

theorem resolveStep_dotdot (dst : Bytes) (b : Bool) :
    resolveStep (dst, b) [46, 46] =
      match lastIndexByte (dst.drop 1) 47 with
      | none => ([47], true)
      | some idx => (47 :: (dst.drop 1).take idx, b) := by
  simp [resolveStep]
  cases lastIndexByte (List.tail dst) 47 <;> rfl

theorem resolveStep_other (dst : Bytes) (b : Bool) {s : Bytes} (h1 : s ≠ [46]) (h2 : s ≠ [46, 46]) :
    resolveStep (dst, b) s = ((if !b then dst ++ [47] else dst) ++ s, false) := by
  simp [resolveStep, h1, h2]

theorem rep_step {st : List Bytes} (hg : Good st) {p : Bytes × Bool} (hp : Rep st p) {s : Bytes}
    (h0 : s ≠ []) (h47 : (47 : UInt8) ∉ s) : Rep (normStep st s) (resolveStep p s) := by
  by_cases h1 : s = [46]
  · subst h1
    rw [normStep_dot]
    rcases hp with rfl | ⟨rfl, rfl⟩ | ⟨hne, rfl⟩
    · exact Or.inl (resolveStep_dot _ _)
    · exact Or.inl (by rw [resolveStep_dot]; rfl)
    · exact Or.inr (Or.inr ⟨hne, resolveStep_dot _ _⟩)
  by_cases h2 : s = [46, 46]
  · subst h2
    rw [normStep_dotdot]
    rcases List.eq_nil_or_concat st with h' | ⟨i, l, h'⟩
    · subst h'
      rcases hp with rfl | ⟨_, rfl⟩ | ⟨hne, _⟩
      · refine Or.inr (Or.inl ⟨rfl, ?_⟩)
        rw [resolveStep_dotdot]; simp [lastIndexByte_none]
      · refine Or.inr (Or.inl ⟨rfl, ?_⟩)
        rw [resolveStep_dotdot]; simp [lastIndexByte_none]
      · exact absurd rfl hne
    · simp only [List.concat_eq_append] at h'
      subst h'
      have hl := hg l (by simp)
      rw [List.dropLast_concat]
      rcases hp with rfl | ⟨h, _⟩ | ⟨_, rfl⟩
      · refine Or.inl ?_
        rw [resolveStep_dotdot]
        simp only [List.drop_one, List.tail_cons, rend_concat, lastIndexByte_append_cons hl.2.1]
        simp
      · simp at h
      · rw [resolveStep_dotdot]
        cases i with
        | nil =>
          refine Or.inr (Or.inl ⟨rfl, ?_⟩)
          simp [lastIndexByte_none hl.2.1]
        | cons t i =>
          refine Or.inr (Or.inr ⟨by simp, ?_⟩)
          have : (rend (t :: i ++ [l])).drop 1 = (t ++ rend i) ++ 47 :: l := by
            simp [rend_append]
          rw [this, lastIndexByte_append_cons hl.2.1]
          simp only [List.take_left]
          simp
  · rw [normStep_other st h1 h2]
    rcases hp with rfl | ⟨rfl, rfl⟩ | ⟨hne, rfl⟩
    · refine Or.inl ?_
      rw [resolveStep_other _ _ h1 h2]; simp [rend_append]
    · refine Or.inr (Or.inr ⟨by simp, ?_⟩)
      rw [resolveStep_other _ _ h1 h2]; simp
    · refine Or.inr (Or.inr ⟨by simp, ?_⟩)
      rw [resolveStep_other _ _ h1 h2]; simp [rend_append]

theorem rep_foldl {init : List Bytes} (hi : Inner init) :
    ∀ {st : List Bytes}, Good st → ∀ {p : Bytes × Bool}, Rep st p →
      Rep (init.foldl normStep st) (init.foldl resolveStep p) ∧ Good (init.foldl normStep st) := by
  induction init with
  | nil => intro st hg p hp; exact ⟨hp, hg⟩
  | cons s init ih =>
    intro st hg p hp
    have hs := hi s (by simp)
    simp only [List.foldl_cons]
    exact ih (fun t ht => hi t (List.mem_cons_of_mem _ ht)) (hg.step hs.1 hs.2) (rep_step hg hp hs.1 hs.2)

/-- the last two statements of `resolvePath` -/
def finish (d : Bytes) : Bytes := if d.length > 1 && d.getD 1 0 == 47 then d.drop 1 else d

theorem rend_second {st : List Bytes} (hg : Inner st) (hne : st ≠ []) :
    ∃ c t, rend st = 47 :: c :: t ∧ c ≠ 47 := by
  cases st with
  | nil => exact absurd rfl hne
  | cons s r =>
    have hs := hg s (by simp)
    cases s with
    | nil => exact absurd rfl hs.1
    | cons c s =>
      have : c ≠ 47 := fun h => hs.2 (by simp [h])
      exact ⟨c, s ++ rend r, by simp, this⟩

theorem finish_slash {st : List Bytes} (hg : Inner st) {p : Bytes × Bool} (hp : Rep st p) :
    finish (p.1 ++ [47]) = rend (st ++ [[]]) := by
  unfold finish
  rcases hp with rfl | ⟨rfl, rfl⟩ | ⟨hne, rfl⟩
  · cases st with
    | nil => simp
    | cons s r => simp [rend_append]
  · simp
  · obtain ⟨c, t, h, hc⟩ := rend_second hg hne
    simp [rend_append, h, hc]

theorem finish_plain {st : List Bytes} (hg : Inner st) (hne : st ≠ []) {p : Bytes × Bool} (hp : Rep st p) :
    finish p.1 = rend st := by
  unfold finish
  rcases hp with rfl | ⟨rfl, _⟩ | ⟨_, rfl⟩
  · cases st with
    | nil => exact absurd rfl hne
    | cons s r => simp
  · exact absurd rfl hne
  · obtain ⟨c, t, h, hc⟩ := rend_second hg hne
    simp [h, hc]

/-- `resolvePath` after the choice of `full` -/
def resolveFull (full : Bytes) : Bytes :=
  let elems := splitOn 47 full
  let dst := (elems.foldl resolveStep ([47], true)).1
  let last := elems.getLast?.getD []
  finish (if last == [46] || last == [46, 46] then dst ++ [47] else dst)

theorem resolveFull_render {init : List Bytes} (hi : Inner init) {l : Bytes} (hl : (47 : UInt8) ∉ l) :
    resolveFull (render (init ++ [l])) = rend (fin (init.foldl normStep []) l) := by
  unfold resolveFull
  have hsp : splitOn 47 (render (init ++ [l])) = [] :: (init ++ [l]) := by
    rw [render_eq_rend (by simp), splitOn_rend _ (by simp)]
    intro s hs
    rcases List.mem_append.1 hs with hs | hs
    · exact (hi s hs).2
    · simp at hs; subst hs; exact hl
  have h0 : resolveStep ([47], true) [] = ([47], false) := by simp [resolveStep]
  simp only [hsp, List.foldl_cons, h0, List.foldl_append, List.foldl_nil]
  have hlast : (([] : Bytes) :: (init ++ [l])).getLast?.getD [] = l := by
    rw [← List.cons_append, List.getLast?_concat]; rfl
  rw [hlast]
  have hA : Rep [] (([47] : Bytes), false) := Or.inl rfl
  obtain ⟨hrep, hg⟩ := rep_foldl hi good_nil hA
  generalize init.foldl normStep [] = st at hrep hg
  generalize init.foldl resolveStep ([47], false) = p at hrep
  unfold fin
  by_cases e0 : l = []
  · subst e0
    simp only [if_true]
    obtain ⟨dst, b⟩ := p
    have hs : resolveStep (dst, b) [] = ((if !b then dst ++ [47] else dst), false) := by
      simp [resolveStep]
    rw [hs]
    rcases hrep with h | ⟨rfl, h⟩ | ⟨hne, h⟩
    · have := finish_slash hg.inner (Or.inl h : Rep st (dst, b))
      cases h; simpa using this
    · cases h; simp [finish]
    · have := finish_slash hg.inner (Or.inr (Or.inr ⟨hne, h⟩) : Rep st (dst, b))
      cases h; simpa using this
  by_cases e1 : l = [46]
  · subst e1
    have := finish_slash hg.inner (rep_step hg hrep (by simp) (by simp) : Rep (normStep st [46]) _)
    simpa [normStep_dot] using this
  by_cases e2 : l = [46, 46]
  · subst e2
    have := finish_slash hg.dropLast.inner
      (by simpa [normStep_dotdot] using rep_step hg hrep (s := [46, 46]) (by simp) (by simp))
    simpa using this
  · have hg' := hg.step e0 hl
    have hrep' := rep_step hg hrep e0 hl
    rw [normStep_other st e1 e2] at hg' hrep'
    have := finish_plain hg'.inner (by simp) hrep'
    simp [e0, e1, e2, this]

theorem resolvePath_eq (base ref : Bytes) :
    resolvePath base ref =
      let full : Bytes :=
        if ref == [] then base
        else if ref.head? != some 47 then
          (match lastIndexByte base 47 with
           | some i => base.take (i + 1)
           | none => []) ++ ref
        else ref
      if full == [] then [] else resolveFull full := rfl

theorem render_ne_nil (segs : List Bytes) : render segs ≠ [] := by simp [render]

theorem goResolveAbsoluteIsRfc : GoResolveAbsoluteIsRfc := by
  intro base ref _ hok
  obtain ⟨init, l, rfl, hi, hl⟩ := segsOK_split hok
  rw [resolvePath_eq, removeDots_render hi hl, ← resolveFull_render hi hl]
  simp [render]

theorem goResolveEmptyIsBase : GoResolveEmptyIsBase := by
  intro base hok
  obtain ⟨init, l, rfl, hi, hl⟩ := segsOK_split hok
  rw [resolvePath_eq, removeDots_render hi hl, ← resolveFull_render hi hl]
  simp [render]

/-- a relative reference path of the grammar is not empty and does not begin with a slash -/
theorem renderRel_head {ri : List Bytes} (hi : Inner ri) {rl : Bytes} (hl : (47 : UInt8) ∉ rl)
    (hne : ri ++ [rl] ≠ [[]]) :
    renderRel (ri ++ [rl]) ≠ [] ∧ (renderRel (ri ++ [rl])).head? ≠ some 47 := by
  unfold renderRel
  cases ri with
  | nil =>
    simp only [List.nil_append, joinSegs] at hne ⊢
    cases rl with
    | nil => simp at hne
    | cons c rl =>
      have : c ≠ 47 := fun h => hl (by simp [h])
      simp [this]
  | cons t ri =>
    have ht := hi t (by simp)
    rw [List.cons_append, joinSegs_cons]
    cases t with
    | nil => exact absurd rfl ht.1
    | cons c t =>
      have : c ≠ 47 := fun h => ht.2 (by simp [h])
      simp [this]

theorem merged_eq {bi : List Bytes} {bl : Bytes} (hbl : (47 : UInt8) ∉ bl) (ref : List Bytes) (hne : ref ≠ []) :
    (match lastIndexByte (render (bi ++ [bl])) 47 with
       | some i => (render (bi ++ [bl])).take (i + 1)
       | none => []) ++ renderRel ref = render (bi ++ ref) := by
  rw [render_eq_rend (by simp), rend_concat, lastIndexByte_append_cons hbl]
  simp only []
  have : (rend bi ++ 47 :: bl).take ((rend bi).length + 1) = rend bi ++ [47] := by
    have e1 : rend bi ++ 47 :: bl = (rend bi ++ [47]) ++ bl := by simp
    have e2 : (rend bi).length + 1 = (rend bi ++ [47]).length := by simp
    rw [e1, e2, List.take_left]
  rw [this, render_eq_rend (by simp [hne]), rend_append]
  cases ref with
  | nil => exact absurd rfl hne
  | cons s r => simp [renderRel, joinSegs_cons]

theorem goResolveRelativeIsRfc : GoResolveRelativeIsRfc := by
  intro base ref hb hr hne
  obtain ⟨bi, bl, rfl, hbi, hbl⟩ := segsOK_split hb
  obtain ⟨ri, rl, rfl, hri, hrl⟩ := segsOK_split hr
  obtain ⟨h1, h2⟩ := renderRel_head hri hrl hne
  have hm := merged_eq (bi := bi) hbl (ri ++ [rl]) (by simp)
  have hi : Inner (bi ++ ri) := by
    intro s hs
    rcases List.mem_append.1 hs with hs | hs
    · exact hbi s hs
    · exact hri s hs
  have hmerge : merge true (render (bi ++ [bl])) (renderRel (ri ++ [rl])) = render (bi ++ ri ++ [rl]) := by
    unfold merge
    have : (render (bi ++ [bl]) == []) = false := by simp [render]
    simp only [this, Bool.and_false, Bool.false_eq_true, if_false]
    rw [List.append_assoc, ← hm]
    cases lastIndexByte (render (bi ++ [bl])) 47 <;> simp
  rw [hmerge, resolvePath_eq]
  have c1 : (renderRel (ri ++ [rl]) == []) = false := by simpa using h1
  have c2 : ((renderRel (ri ++ [rl])).head? != some 47) = true := by simpa using h2
  simp only [c1, c2, Bool.false_eq_true, if_false, if_true, hm]
  rw [← List.append_assoc]
  have : (render (bi ++ ri ++ [rl]) == []) = false := by simp [render]
  simp only [this, Bool.false_eq_true, if_false]
  rw [resolveFull_render hi hrl, removeDots_render hi hrl]


/-! ## §5.2.2: the component choice of `ResolveReference` -/

theorem setPath_eq (u : URL) (p : Bytes) :
    setPath u p = (Net.unescape Mode.path p).map fun path =>
      { u with path := path, rawPath := if p == Net.escape Mode.path path then [] else p } := by
  unfold setPath
  cases Net.unescape Mode.path p <;> rfl

theorem setPath_getD_fields (u : URL) (p : Bytes) :
    ((setPath u p).getD u).scheme = u.scheme ∧ ((setPath u p).getD u).host = u.host ∧
    ((setPath u p).getD u).user = u.user ∧ ((setPath u p).getD u).rawQuery = u.rawQuery ∧
    ((setPath u p).getD u).fragment = u.fragment ∧ ((setPath u p).getD u).opaq = u.opaq := by
  rw [setPath_eq]
  cases Net.unescape Mode.path p <;> simp

theorem resolveChoice : ResolveChoice := by
  intro b r hb hs ho
  intro t
  have hsb : (r.scheme == []) = true := by simp [hs]
  have hob : (r.opaq != []) = false := by simp [ho]
  have hbb : (b.opaq != []) = false := by simp [hb]
  by_cases hauth : r.host ≠ [] ∨ r.user.isSome
  · have hc : (r.scheme != [] || r.host != [] || r.user.isSome) = true := by
      rcases hauth with h | h
      · simp [h]
      · simp [h]
    have ht : t = (setPath { r with scheme := b.scheme } (resolvePath r.escapedPath [])).getD
        { r with scheme := b.scheme } := by
      show resolveReference b r = _
      unfold resolveReference
      simp only [hsb, if_true, hc]
    have hf := setPath_getD_fields { r with scheme := b.scheme } (resolvePath r.escapedPath [])
    rw [← ht] at hf
    refine ⟨hf.1, fun _ => ⟨hf.2.1, hf.2.2.1, hf.2.2.2.1⟩, ?_, ?_, ?_, ?_⟩
    all_goals
      intro h1 h2
      exfalso
      rcases hauth with h | h
      · exact h h1
      · rw [h2] at h; simp at h
  · have hh : r.host = [] := by
      apply Classical.byContradiction; intro h; exact hauth (Or.inl h)
    have hu : r.user = none := by
      cases hu : r.user with
      | none => rfl
      | some x => exact absurd (Or.inr (by simp [hu])) hauth
    have hc : (r.scheme != [] || r.host != [] || r.user.isSome) = false := by simp [hs, hh, hu]
    by_cases hq : r.path = [] ∧ r.forceQuery = false ∧ r.rawQuery = []
    · obtain ⟨hp, hfq, hrq⟩ := hq
      have hcq : (r.path == [] && !r.forceQuery && r.rawQuery == []) = true := by simp [hp, hfq, hrq]
      let url1 : URL := { r with scheme := b.scheme, rawQuery := b.rawQuery }
      let url2 : URL := if r.fragment == [] then { url1 with fragment := b.fragment, rawFragment := b.rawFragment } else url1
      let url3 : URL := { url2 with host := b.host, user := b.user }
      have ht : t = (setPath url3 (resolvePath b.escapedPath r.escapedPath)).getD url3 := by
        show resolveReference b r = _
        unfold resolveReference
        simp only [hsb, if_true, hc, hob, hcq, hbb, Bool.and_false, Bool.false_eq_true, if_false]
        rfl
      have hf := setPath_getD_fields url3 (resolvePath b.escapedPath r.escapedPath)
      rw [← ht] at hf
      have h3s : url3.scheme = b.scheme := by simp only [url3, url2, url1]; split <;> rfl
      have h3q : url3.rawQuery = b.rawQuery := by simp only [url3, url2, url1]; split <;> rfl
      refine ⟨hf.1.trans h3s, ?_, fun _ _ => ⟨hf.2.1, hf.2.2.1⟩, fun _ _ _ _ _ => hf.2.2.2.1.trans h3q, ?_, ?_⟩
      · intro h; exact absurd h hauth
      · intro _ _ h
        rcases h with h | h | h
        · exact absurd hp h
        · rw [hfq] at h; simp at h
        · exact absurd hrq h
      · intro _ _ t' ht'
        rw [setPath_eq] at ht'
        rw [ht, setPath_eq]
        cases hun : Net.unescape Mode.path (resolvePath b.escapedPath r.escapedPath) with
        | none => rw [hun] at ht'; simp at ht'
        | some path =>
          rw [hun] at ht'
          simp only [Option.map_some, Option.some.injEq] at ht'
          subst ht'
          simp
    · have hcq : (r.path == [] && !r.forceQuery && r.rawQuery == []) = false := by
        rw [Bool.eq_false_iff]
        intro h
        simp only [Bool.and_eq_true, beq_iff_eq, Bool.not_eq_true'] at h
        exact hq ⟨h.1.1, h.1.2, h.2⟩
      let url3 : URL := { r with scheme := b.scheme, host := b.host, user := b.user }
      have ht : t = (setPath url3 (resolvePath b.escapedPath r.escapedPath)).getD url3 := by
        show resolveReference b r = _
        unfold resolveReference
        simp only [hsb, if_true, hc, hob, hcq, hbb, Bool.and_false, Bool.false_eq_true, if_false]
        rfl
      have hf := setPath_getD_fields url3 (resolvePath b.escapedPath r.escapedPath)
      rw [← ht] at hf
      refine ⟨hf.1, ?_, fun _ _ => ⟨hf.2.1, hf.2.2.1⟩, ?_, fun _ _ _ => hf.2.2.2.1, ?_⟩
      · intro h; exact absurd h hauth
      · intro _ _ h1 h2 h3; exact absurd ⟨h1, h2, h3⟩ hq
      · intro _ _ t' ht'
        rw [setPath_eq] at ht'
        rw [ht, setPath_eq]
        cases hun : Net.unescape Mode.path (resolvePath b.escapedPath r.escapedPath) with
        | none => rw [hun] at ht'; simp at ht'
        | some path =>
          rw [hun] at ht'
          simp only [Option.map_some, Option.some.injEq] at ht'
          subst ht'
          simp


/-! ## the scheme and the fragment through the constructor -/

theorem lowerByte_idem (c : UInt8) :
    (fun c : UInt8 => if 65 ≤ c && c ≤ 90 then c + 32 else c) ((fun c : UInt8 => if 65 ≤ c && c ≤ 90 then c + 32 else c) c)
      = (fun c : UInt8 => if 65 ≤ c && c ≤ 90 then c + 32 else c) c := by
  have key : ∀ n : Fin 256,
      (fun c : UInt8 => if 65 ≤ c && c ≤ 90 then c + 32 else c)
        ((fun c : UInt8 => if 65 ≤ c && c ≤ 90 then c + 32 else c) (UInt8.ofNat n))
      = (fun c : UInt8 => if 65 ≤ c && c ≤ 90 then c + 32 else c) (UInt8.ofNat n) := by decide +kernel
  have := key ⟨c.toNat, c.toNat_lt⟩
  simpa using this

theorem toLower_idem (s : Bytes) : toLowerAscii (toLowerAscii s) = toLowerAscii s := by
  unfold toLowerAscii
  rw [List.map_map]
  apply List.map_congr_left
  intro c _
  exact lowerByte_idem c

theorem setPath_some {u v : URL} {p : Bytes} (h : setPath u p = some v) :
    v.scheme = u.scheme ∧ v.fragment = u.fragment := by
  rw [setPath_eq] at h
  cases hun : Net.unescape Mode.path p with
  | none => rw [hun] at h; simp at h
  | some path => rw [hun] at h; simp at h; subst h; simp

theorem setFragment_some {u v : URL} {f : Bytes} (h : setFragment u f = some v) : v.scheme = u.scheme := by
  unfold setFragment at h
  cases hun : Net.unescape Mode.fragment f with
  | none => rw [hun] at h; simp at h
  | some path => rw [hun] at h; simp at h; subst h; simp

theorem parse_lower {raw : Bytes} {via : Bool} {u : URL} (h : Net.parse raw via = some u) :
    toLowerAscii u.scheme = u.scheme := by
  unfold Net.parse at h
  split at h
  · simp at h
  split at h
  · simp at h
  split at h
  · simp at h; subst h; rfl
  split at h
  · simp at h
  rename_i scheme0 rest0 _
  simp only at h
  generalize (if (hasSuffix rest0 [63] && countByte rest0 63 == 1) = true then (List.dropLast rest0, ([] : Bytes), true)
    else ((cut rest0 63).fst, (cut rest0 63).2.fst, false)) = trip at h
  split at h
  · simp only [Option.some.injEq] at h; subst h; exact toLower_idem _
  split at h
  · simp at h
  split at h
  · simp at h
  split at h
  · split at h
    · simp at h
    · rw [(setPath_some h).1]; exact toLower_idem _
  · rw [(setPath_some h).1]; exact toLower_idem _

theorem Parse_lower {raw : Bytes} {u : URL} (h : Net.Parse raw = some u) :
    toLowerAscii u.scheme = u.scheme := by
  unfold Net.Parse at h
  simp only at h
  split at h
  · simp at h
  · rename_i url hp
    split at h
    · simp only [Option.some.injEq] at h; subst h; exact parse_lower hp
    · rw [setFragment_some h]; exact parse_lower hp

theorem resolveReference_scheme (b r : URL) (hs : r.scheme = []) : (resolveReference b r).scheme = b.scheme := by
  unfold resolveReference
  have hsb : (r.scheme == []) = true := by simp [hs]
  simp only [hsb, if_true]
  split
  · exact (setPath_getD_fields _ _).1
  split
  · rfl
  split
  · simp only []
    repeat' split
    all_goals rfl
  · rw [(setPath_getD_fields _ _).1]
    simp only []
    repeat' split
    all_goals rfl

theorem fixRawQuery_fields (u : URL) :
    (Obj.fixRawQuery u).scheme = u.scheme ∧ (Obj.fixRawQuery u).fragment = u.fragment := by
  unfold Obj.fixRawQuery; split <;> simp

theorem fixURL_fields {u v : URL} (h : Obj.fixURL u = .ok v) : v.scheme = u.scheme ∧ v.fragment = u.fragment := by
  unfold Obj.fixURL at h
  simp only [bind, Except.bind, pure, Except.pure, throw, throwThe, MonadExceptOf.throw] at h
  repeat' split at h
  all_goals first
    | (simp at h; done)
    | (injection h with h; subst h; simp [fixRawQuery_fields])

theorem clearURLPort_fields (u : URL) :
    (Obj.clearURLPort u).scheme = u.scheme ∧ (Obj.clearURLPort u).fragment = u.fragment := ⟨rfl, rfl⟩

theorem normalizeURL_fields {u v : URL} (h : Obj.normalizeURL u = .ok v) :
    v.scheme = u.scheme ∧ v.fragment = u.fragment := by
  unfold Obj.normalizeURL at h
  simp only [bind, Except.bind, throw, throwThe, MonadExceptOf.throw] at h
  split at h
  · simp at h
  split at h
  · simp at h
  have := fixURL_fields h
  rw [this.1, this.2]
  repeat' split
  all_goals exact ⟨rfl, rfl⟩

theorem parseURL_fields {s : Bytes} {isBase : Bool} {v : URL} (h : Obj.parseURL s isBase = .ok v) :
    ∃ u, Net.Parse s = some u ∧ v.scheme = u.scheme ∧ v.fragment = u.fragment ∧
      (isBase = true → u.scheme ≠ []) := by
  unfold Obj.parseURL at h
  simp only [throw, throwThe, MonadExceptOf.throw] at h
  split at h
  · simp at h
  · rename_i u hu
    split at h
    · simp at h
    · rename_i hc
      have := normalizeURL_fields h
      refine ⟨u, hu, this.1, this.2, ?_⟩
      intro hb
      subst hb
      simpa [URL.isAbs] using hc

theorem schemeRequiredAndLower : SchemeRequiredAndLower := by
  intro s base u h
  unfold Obj.construct at h
  cases base with
  | none =>
    simp only at h
    obtain ⟨p, hp, hs, _, habs⟩ := parseURL_fields h
    rw [hs]
    exact ⟨habs rfl, Parse_lower hp⟩
  | some b =>
    simp only [bind, Except.bind, throw, throwThe, MonadExceptOf.throw] at h
    split at h
    · simp at h
    · rename_i baseU hbase
      obtain ⟨pb, hpb, hsb, _, habs⟩ := parseURL_fields hbase
      split at h
      · simp at h
      · rename_i ref href
        split at h
        · rename_i hra
          obtain ⟨p, hp, hs, _, _⟩ := parseURL_fields h
          rw [href] at hp
          cases hp
          rw [hs]
          exact ⟨by simpa [URL.isAbs] using hra, Parse_lower href⟩
        · rename_i hra
          have hrs : ref.scheme = [] := by simpa [URL.isAbs] using hra
          have := normalizeURL_fields h
          rw [this.1]
          show (resolveReference baseU ref).scheme ≠ [] ∧ _ = (resolveReference baseU ref).scheme
          rw [resolveReference_scheme _ _ hrs, hsb]
          exact ⟨habs rfl, Parse_lower hpb⟩

theorem fragmentIsReferences : FragmentIsReferences := by
  intro s b u ref h href hrs
  unfold Obj.construct at h
  simp only [bind, Except.bind, href] at h
  split at h
  · simp at h
  · have hra : ref.isAbs = false := by simp [URL.isAbs, hrs]
    simp only [hra, Bool.false_eq_true, if_false] at h
    exact (normalizeURL_fields h).2

end GN.Url.Rfc
