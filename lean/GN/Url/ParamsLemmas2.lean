import GN.Url.ParamsLemmas

/-! C12, second batch of lemmas: `set` refines `setSpec`; the sort is sorted, a permutation and stable;
`parse ∘ serialize = id`; the generated escape table satisfies `TableOK`. -/

namespace GN.Url
open GN

/-! ## (D) the generated table -/

/-- the generated table escapes every character the parser treats specially -/
theorem tableOK_generated : TableOK safeParam := by
  unfold TableOK safeParam; decide

/-! ## (C) parse ∘ serialize -/

theorem splitOn_no_sep (sep : UInt8) (a : Bytes) (h : sep ∉ a) : splitOn sep a = [a] := by
  induction a with
  | nil => simp [splitOn]
  | cons c cs ih =>
    simp at h
    have hc : c ≠ sep := fun e => h.1 e.symm
    simp [splitOn, hc, ih h.2]

theorem splitOn_append_sep (sep : UInt8) (a b : Bytes) (h : sep ∉ a) :
    splitOn sep (a ++ sep :: b) = a :: splitOn sep b := by
  induction a with
  | nil => simp [splitOn]
  | cons c cs ih =>
    simp at h
    have hc : c ≠ sep := fun e => h.1 e.symm
    simp [splitOn, hc, ih h.2]

theorem splitFirst_append_sep (sep : UInt8) (a b : Bytes) (h : sep ∉ a) :
    splitFirst sep (a ++ sep :: b) = (a, some b) := by
  induction a with
  | nil => simp [splitFirst]
  | cons c cs ih =>
    simp at h
    have hc : c ≠ sep := fun e => h.1 e.symm
    simp [splitFirst, hc, ih h.2]

/-- the per-segment function of `parse` -/
def parseSeg (v : Bytes) : Option Pair :=
  if v = [] then none
  else match splitFirst 61 v with
    | (n, none) => some ⟨unescape n, []⟩
    | (n, some val) => some ⟨unescape n, unescape val⟩

theorem parse_eq (query : Bytes) :
    parse query = if query = [] then [] else
      (splitOn 38 (match query with | 63 :: rest => rest | q => q)).filterMap parseSeg := rfl

theorem serializePair_ne_nil (p : Pair) : serializePair p ≠ [] := by
  simp [serializePair]

theorem serializePair_no_amp (h : TableOK safeParam) (p : Pair) : (38 : UInt8) ∉ serializePair p := by
  intro hm
  simp only [serializePair, List.mem_append, List.mem_singleton] at hm
  rcases hm with (hm | hm) | hm
  · exact (escape_no_special safeParam h p.name 38 hm).1 rfl
  · revert hm; decide
  · exact (escape_no_special safeParam h p.value 38 hm).1 rfl

theorem parseSeg_serializePair (h : TableOK safeParam) (p : Pair) : parseSeg (serializePair p) = some p := by
  unfold parseSeg
  rw [if_neg (serializePair_ne_nil p)]
  have h61 : (61 : UInt8) ∉ escape safeParam p.name :=
    fun hm => (escape_no_special safeParam h p.name 61 hm).2.1 rfl
  have : serializePair p = escape safeParam p.name ++ 61 :: escape safeParam p.value := by
    simp [serializePair]
  rw [this, splitFirst_append_sep 61 _ _ h61]
  simp [unescape_escape safeParam h]

/-- the head of a serialised pair is not `?` -/
theorem serializePair_head (h : TableOK safeParam) (p : Pair) :
    ∃ c t, serializePair p = c :: t ∧ c ≠ 63 := by
  cases hn : escape safeParam p.name with
  | nil => exact ⟨61, escape safeParam p.value, by simp [serializePair, hn], by decide⟩
  | cons c t =>
    refine ⟨c, t ++ [61] ++ escape safeParam p.value, by simp [serializePair, hn], ?_⟩
    have := escape_no_special safeParam h p.name c (by simp [hn])
    exact this.2.2

theorem serialize_cons_cons (p q : Pair) (ps : Params) :
    serialize (p :: q :: ps) = serializePair p ++ 38 :: serialize (q :: ps) := by
  simp [serialize]

theorem serialize_head (h : TableOK safeParam) (p : Pair) (ps : Params) :
    ∃ c t, serialize (p :: ps) = c :: t ∧ c ≠ 63 := by
  obtain ⟨c, t, e, hc⟩ := serializePair_head h p
  cases ps with
  | nil => exact ⟨c, t, by simp [serialize, e], hc⟩
  | cons q qs => exact ⟨c, t ++ 38 :: serialize (q :: qs), by rw [serialize_cons_cons, e]; simp, hc⟩

theorem serialize_eq_nil_iff (l : Params) : serialize l = [] ↔ l = [] := by
  cases l with
  | nil => simp [serialize]
  | cons p ps =>
    cases ps with
    | nil => simp [serialize, serializePair_ne_nil]
    | cons q qs => rw [serialize_cons_cons]; simp

theorem parseBody_serialize (h : TableOK safeParam) (p : Pair) (ps : Params) :
    (splitOn 38 (serialize (p :: ps))).filterMap parseSeg = p :: ps := by
  induction ps generalizing p with
  | nil =>
    simp only [serialize]
    rw [splitOn_no_sep 38 _ (serializePair_no_amp h p)]
    simp [parseSeg_serializePair h]
  | cons q qs ih =>
    rw [serialize_cons_cons, splitOn_append_sep 38 _ _ (serializePair_no_amp h p)]
    rw [List.filterMap_cons, parseSeg_serializePair h, ih q]

/-- serialisation round-trips through the parser, for EVERY list of pairs of byte strings -/
theorem parse_serialize (h : TableOK safeParam) (l : Params) : parse (serialize l) = l := by
  cases l with
  | nil => simp [parse, serialize]
  | cons p ps =>
    obtain ⟨c, t, e, hc⟩ := serialize_head h p ps
    rw [parse_eq]
    have hb := parseBody_serialize h p ps
    rw [e] at hb ⊢
    rw [if_neg (by simp)]
    split
    · next rest heq => simp at heq; exact absurd heq.1 hc
    · exact hb

/-- the same for the parser proper (a URL's own query, which has no `?` to drop): a serialised list never starts
with `?`, because the table escapes it -/
theorem parseBody_serialize_id (h : TableOK safeParam) (l : Params) : Url.parseBody (serialize l) = l := by
  have hh : (serialize l).head? ≠ some 63 := by
    cases l with
    | nil => simp [serialize]
    | cons p ps =>
      obtain ⟨c, t, e, hc⟩ := serialize_head h p ps
      rw [e]; simpa using hc
  rw [← parse_eq_parseBody _ hh]
  exact parse_serialize h l

/-! ## (B) the sort -/

theorem ltBytes_irrefl (a : Bytes) : ltBytes a a = false := by
  induction a with
  | nil => simp [ltBytes]
  | cons x xs ih => simp [ltBytes, ih, UInt8.lt_irrefl]

theorem ltBytes_asymm : ∀ (a b : Bytes), ltBytes a b = true → ltBytes b a = false := by
  intro a
  induction a with
  | nil => intro b; cases b <;> simp [ltBytes]
  | cons x xs ih =>
    intro b
    cases b with
    | nil => simp [ltBytes]
    | cons y ys =>
      simp only [ltBytes, UInt8.lt_iff_toNat_lt]
      intro h
      split at h
      · rw [if_neg (by omega), if_pos (by omega)]
      · split at h
        · simp at h
        · rw [if_neg (by omega), if_neg (by omega)]; exact ih ys h

/-- `≤` on names is transitive -/
theorem ltBytes_le_trans : ∀ (a b c : Bytes), ltBytes b a = false → ltBytes c b = false → ltBytes c a = false := by
  intro a
  induction a with
  | nil =>
    intro b c h1 h2
    cases b with
    | nil => exact h2
    | cons y ys => cases c <;> simp [ltBytes] at *
  | cons x xs ih =>
    intro b c h1 h2
    cases b with
    | nil => simp [ltBytes] at h1
    | cons y ys =>
      cases c with
      | nil => simp [ltBytes] at h2
      | cons z zs =>
        simp only [ltBytes, UInt8.lt_iff_toNat_lt] at *
        split at h1
        · simp at h1
        · split at h2
          · simp at h2
          · split at h1
            · rw [if_neg (by omega)]
              split at h2
              · rw [if_pos (by omega)]
              · rw [if_pos (by omega)]
            · split at h2
              · rw [if_neg (by omega), if_pos (by omega)]
              · rw [if_neg (by omega), if_neg (by omega)]
                exact ih ys zs h1 h2

/-- `≤` on names is antisymmetric (so `ltBytes` is a strict total order) -/
theorem ltBytes_antisymm : ∀ (a b : Bytes), ltBytes a b = false → ltBytes b a = false → a = b := by
  intro a
  induction a with
  | nil => intro b; cases b <;> simp [ltBytes]
  | cons x xs ih =>
    intro b
    cases b with
    | nil => simp [ltBytes]
    | cons y ys =>
      simp only [ltBytes, UInt8.lt_iff_toNat_lt]
      intro h1 h2
      split at h1
      · simp at h1
      · split at h2
        · simp at h2
        · have hxy : x = y := UInt8.toNat_inj.mp (by omega)
          rw [if_neg (by omega)] at h1
          rw [hxy, ih ys h1 h2]

theorem ltUnits_irrefl (a : List Nat) : ltUnits a a = false := by
  induction a with
  | nil => simp [ltUnits]
  | cons x xs ih => simp [ltUnits, ih]

theorem ltUnits_asymm : ∀ (a b : List Nat), ltUnits a b = true → ltUnits b a = false := by
  intro a
  induction a with
  | nil => intro b; cases b <;> simp [ltUnits]
  | cons x xs ih =>
    intro b
    cases b with
    | nil => simp [ltUnits]
    | cons y ys =>
      simp only [ltUnits]
      intro h
      split at h
      · rw [if_neg (by omega), if_pos (by omega)]
      · split at h
        · simp at h
        · rw [if_neg (by omega), if_neg (by omega)]; exact ih ys h

theorem ltUnits_le_trans : ∀ (a b c : List Nat), ltUnits b a = false → ltUnits c b = false → ltUnits c a = false := by
  intro a
  induction a with
  | nil =>
    intro b c h1 h2
    cases b with
    | nil => exact h2
    | cons y ys => cases c <;> simp [ltUnits] at *
  | cons x xs ih =>
    intro b c h1 h2
    cases b with
    | nil => simp [ltUnits] at h1
    | cons y ys =>
      cases c with
      | nil => simp [ltUnits] at h2
      | cons z zs =>
        simp only [ltUnits] at *
        split at h1
        · simp at h1
        · split at h2
          · simp at h2
          · split at h1
            · rw [if_neg (by omega)]
              split at h2
              · rw [if_pos (by omega)]
              · rw [if_pos (by omega)]
            · split at h2
              · rw [if_neg (by omega), if_pos (by omega)]
              · rw [if_neg (by omega), if_neg (by omega)]
                exact ih ys zs h1 h2

/-- the order on names the sort uses (UTF-16 code units): irreflexive, asymmetric, and `≤` is transitive -/
theorem ltName_irrefl (a : Bytes) : ltName a a = false := ltUnits_irrefl _
theorem ltName_asymm (a b : Bytes) : ltName a b = true → ltName b a = false := ltUnits_asymm _ _
theorem ltName_le_trans (a b c : Bytes) : ltName b a = false → ltName c b = false → ltName c a = false :=
  ltUnits_le_trans _ _ _

/-- `p ≤ q` on names -/
def leName (p q : Pair) : Prop := ltName q.name p.name = false

theorem leName_trans {p q r : Pair} (h1 : leName p q) (h2 : leName q r) : leName p r :=
  ltName_le_trans p.name q.name r.name h1 h2

theorem sortedByName_iff_pairwise (l : Params) : SortedByName l ↔ l.Pairwise leName := by
  induction l with
  | nil => simp [SortedByName]
  | cons p l ih =>
    cases l with
    | nil => simp [SortedByName]
    | cons q rest =>
      simp only [SortedByName]
      rw [ih, List.pairwise_cons (a := p)]
      constructor
      · rintro ⟨hpq, hs⟩
        refine ⟨?_, hs⟩
        intro x hx
        rcases List.mem_cons.mp hx with rfl | hx
        · exact hpq
        · exact leName_trans hpq ((List.pairwise_cons.mp hs).1 x hx)
      · rintro ⟨hall, hs⟩
        exact ⟨hall q (by simp), hs⟩

theorem insertSorted_perm (p : Pair) (l : Params) : (insertSorted p l).Perm (p :: l) := by
  induction l with
  | nil => simp [insertSorted]
  | cons q qs ih =>
    simp only [insertSorted]
    split
    · exact List.Perm.refl _
    · exact ((List.Perm.cons q ih).trans (List.Perm.swap p q qs))

theorem insertSorted_pairwise (p : Pair) (l : Params) (hl : l.Pairwise leName) :
    (insertSorted p l).Pairwise leName := by
  induction l with
  | nil => simp [insertSorted]
  | cons q qs ih =>
    obtain ⟨hq, hqs⟩ := List.pairwise_cons.mp hl
    simp only [insertSorted]
    split
    · next hlt =>
      refine List.pairwise_cons.mpr ⟨?_, hl⟩
      have hpq : leName p q := ltName_asymm _ _ hlt
      intro x hx
      rcases List.mem_cons.mp hx with rfl | hx
      · exact hpq
      · exact leName_trans hpq (hq x hx)
    · next hnlt =>
      refine List.pairwise_cons.mpr ⟨?_, ih hqs⟩
      intro x hx
      rcases List.mem_cons.mp ((insertSorted_perm p qs).mem_iff.mp hx) with rfl | hx
      · simpa [leName] using hnlt
      · exact hq x hx

theorem insertSorted_filter (p : Pair) (n : Bytes) (l : Params) (hl : l.Pairwise leName) :
    (insertSorted p l).filter (·.name == n) = l.filter (·.name == n) ++ (if p.name == n then [p] else []) := by
  induction l with
  | nil => simp [insertSorted, List.filter_cons]
  | cons q qs ih =>
    obtain ⟨hq, hqs⟩ := List.pairwise_cons.mp hl
    simp only [insertSorted]
    split
    · next hlt =>
      by_cases hpn : p.name = n
      · have hnil : (q :: qs).filter (·.name == n) = [] := by
          rw [List.filter_eq_nil_iff]
          intro x hx hxn
          have hxn' : x.name = p.name := by rw [hpn]; simpa using hxn
          have hqx : leName q x := by
            rcases List.mem_cons.mp hx with rfl | hx
            · exact ltName_irrefl _
            · exact hq x hx
          unfold leName at hqx
          rw [hxn', hlt] at hqx
          exact absurd hqx (by simp)
        rw [List.filter_cons, hnil]
        simp [hpn]
      · rw [List.filter_cons]
        simp [hpn]
    · rw [List.filter_cons, ih hqs, List.filter_cons]
      split <;> simp

theorem foldl_insertSorted_pairwise (sp acc : Params) (h : acc.Pairwise leName) :
    (sp.foldl (fun acc p => insertSorted p acc) acc).Pairwise leName := by
  induction sp generalizing acc with
  | nil => exact h
  | cons p ps ih => exact ih _ (insertSorted_pairwise p acc h)

theorem foldl_insertSorted_perm (sp acc : Params) :
    (sp.foldl (fun acc p => insertSorted p acc) acc).Perm (sp ++ acc) := by
  induction sp generalizing acc with
  | nil => exact List.Perm.refl _
  | cons p ps ih =>
    refine (ih (insertSorted p acc)).trans ?_
    refine ((insertSorted_perm p acc).append_left ps).trans ?_
    exact List.perm_middle

theorem foldl_insertSorted_filter (n : Bytes) (sp acc : Params) (h : acc.Pairwise leName) :
    (sp.foldl (fun acc p => insertSorted p acc) acc).filter (·.name == n) =
      acc.filter (·.name == n) ++ sp.filter (·.name == n) := by
  induction sp generalizing acc with
  | nil => simp
  | cons p ps ih =>
    rw [List.foldl_cons, ih _ (insertSorted_pairwise p acc h), insertSorted_filter p n acc h, List.filter_cons]
    split <;> simp

/-- the sort is sorted by name -/
theorem sort_sorted (sp : Params) : SortedByName (sort sp) :=
  (sortedByName_iff_pairwise _).mpr (foldl_insertSorted_pairwise sp [] List.Pairwise.nil)

/-- the sort is a permutation of its input -/
theorem sort_perm (sp : Params) : (sort sp).Perm sp := by
  have := foldl_insertSorted_perm sp []
  simpa [sort] using this

/-- the sort is stable: pairs with the same name keep their relative order -/
theorem sort_stable (sp : Params) (n : Bytes) : (sort sp).filter (·.name == n) = sp.filter (·.name == n) := by
  have := foldl_insertSorted_filter n sp [] List.Pairwise.nil
  simpa [sort] using this

/-! ## (A) the `set` loop -/

theorem setLoop_end (name value : Bytes) (sp : List Pair) (i j : Nat) (found : Bool) (h : ¬ i < sp.length) :
    setLoop name value sp i j found = (sp, j, found) := by
  rw [setLoop]; simp [h]

theorem setLoop_skip (name value : Bytes) (sp : List Pair) (i j : Nat) (h : i < sp.length)
    (hn : sp[i].name = name) :
    setLoop name value sp i j true = setLoop name value sp (i + 1) j true := by
  rw [setLoop]; simp [h, hn]

theorem setLoop_first (name value : Bytes) (sp : List Pair) (i j : Nat) (h : i < sp.length)
    (hn : sp[i].name = name) :
    setLoop name value sp i j false =
      setLoop name value
        (if i ≠ j then (sp.set i { sp[i] with value := value }).set j sp[i]
         else sp.set i { sp[i] with value := value }) (i + 1) (j + 1) true := by
  rw [setLoop]; simp [h, hn]

theorem setLoop_keep (name value : Bytes) (sp : List Pair) (i j : Nat) (found : Bool) (h : i < sp.length)
    (hn : sp[i].name ≠ name) :
    setLoop name value sp i j found =
      setLoop name value (if i ≠ j then sp.set j sp[i] else sp) (i + 1) (j + 1) found := by
  rw [setLoop]; simp [h, hn]

/-- once `found` is set, the `set` loop is the compaction loop of `delete` for `name != ·` -/
theorem setLoop_true_eq_compact (name value : Bytes) (n : Nat) : ∀ (sp : List Pair) (i j : Nat),
    sp.length - i = n →
    setLoop name value sp i j true =
      ((compactLoop (fun p => p.name != name) sp i j).1, (compactLoop (fun p => p.name != name) sp i j).2, true) := by
  induction n with
  | zero =>
    intro sp i j hn
    have h : ¬ i < sp.length := by omega
    rw [setLoop_end _ _ _ _ _ _ h, compact_step_end _ _ _ _ h]
  | succ n ih =>
    intro sp i j hn
    have h : i < sp.length := by omega
    by_cases hm : sp[i].name = name
    · rw [setLoop_skip _ _ _ _ _ h hm, compact_step_drop _ sp i j h (by simp [hm])]
      exact ih sp (i + 1) j (by omega)
    · rw [setLoop_keep _ _ _ _ _ _ h hm, compact_step_keep _ sp i j h (by simp [hm])]
      have hlen : (if i ≠ j then sp.set j sp[i] else sp).length = sp.length := by split <;> simp
      exact ih _ (i + 1) (j + 1) (by rw [hlen]; omega)

theorem setLoop_true_spec (name value : Bytes) (sp : List Pair) (i j : Nat) (hji : j ≤ i) (hi : i ≤ sp.length) :
    (setLoop name value sp i j true).2.2 = true ∧
    (setLoop name value sp i j true).1.take (setLoop name value sp i j true).2.1 =
      sp.take j ++ (sp.drop i).filter (fun p => p.name != name) := by
  rw [setLoop_true_eq_compact name value _ sp i j rfl]
  exact ⟨rfl, compactLoop_spec _ _ sp i j rfl hji hi⟩

/-- while nothing has been found, `i = j` and the array is untouched -/
theorem setLoop_false_spec (name value : Bytes) (n : Nat) : ∀ (sp : List Pair) (i : Nat),
    sp.length - i = n → i ≤ sp.length →
    (if (setLoop name value sp i i false).2.2 then
        (setLoop name value sp i i false).1.take (setLoop name value sp i i false).2.1
      else sp ++ [⟨name, value⟩]) = sp.take i ++ setSpec (sp.drop i) name value := by
  induction n with
  | zero =>
    intro sp i hn hi
    have h : ¬ i < sp.length := by omega
    rw [setLoop_end _ _ _ _ _ _ h]
    have hd : sp.drop i = [] := List.drop_eq_nil_of_le (by omega)
    have ht : sp.take i = sp := List.take_of_length_le (by omega)
    simp [hd, ht, setSpec]
  | succ n ih =>
    intro sp i hn hi
    have h : i < sp.length := by omega
    have hdi : sp.drop i = sp[i] :: sp.drop (i + 1) := List.drop_eq_getElem_cons h
    by_cases hm : sp[i].name = name
    · rw [setLoop_first _ _ _ _ _ h hm]
      simp only [ne_eq, not_true_eq_false, if_false]
      have hlen : (sp.set i { sp[i] with value := value }).length = sp.length := by simp
      obtain ⟨hf, ht⟩ := setLoop_true_spec name value (sp.set i { sp[i] with value := value }) (i + 1) (i + 1)
        (Nat.le_refl _) (by rw [hlen]; omega)
      rw [hf, if_pos rfl, ht]
      rw [List.drop_set_of_lt (by omega), List.take_add_one, List.take_set_of_le (Nat.le_refl i)]
      rw [hdi, setSpec, if_pos hm]
      simp [h]
    · rw [setLoop_keep _ _ _ _ _ _ h hm]
      simp only [ne_eq, not_true_eq_false, if_false]
      rw [ih sp (i + 1) (by omega) (by omega)]
      rw [hdi, setSpec, if_neg hm, List.take_add_one, List.getElem?_eq_getElem h]
      simp only [Option.toList_some, List.append_assoc, List.cons_append, List.nil_append]

/-- the `set` loop refines the WHATWG list-level `set` -/
theorem set_eq_setSpec (sp : Params) (name value : Bytes) : set sp name value = setSpec sp name value := by
  have := setLoop_false_spec name value _ sp 0 rfl (Nat.zero_le _)
  simpa [set] using this

end GN.Url
