import GN.Url.Params

/-! Helper lemmas for C12: the compaction loop of `delete` refines `List.filter`; percent-encoding round trip. -/

namespace GN.Url
open GN

theorem compact_step_keep (keep : Pair → Bool) (sp : List Pair) (i j : Nat) (h : i < sp.length) (hk : keep sp[i] = true) :
    compactLoop keep sp i j = compactLoop keep (if i ≠ j then sp.set j sp[i] else sp) (i + 1) (j + 1) := by
  rw [compactLoop]; simp [h, hk]

theorem compact_step_drop (keep : Pair → Bool) (sp : List Pair) (i j : Nat) (h : i < sp.length) (hk : keep sp[i] = false) :
    compactLoop keep sp i j = compactLoop keep sp (i + 1) j := by
  rw [compactLoop]; simp [h, hk]

theorem compact_step_end (keep : Pair → Bool) (sp : List Pair) (i j : Nat) (h : ¬ i < sp.length) :
    compactLoop keep sp i j = (sp, j) := by
  rw [compactLoop]; simp [h]

theorem compactLoop_spec (keep : Pair → Bool) (n : Nat) : ∀ (sp : List Pair) (i j : Nat),
    sp.length - i = n → j ≤ i → i ≤ sp.length →
    ((compactLoop keep sp i j).1.take (compactLoop keep sp i j).2) = sp.take j ++ (sp.drop i).filter keep := by
  induction n with
  | zero =>
    intro sp i j hn hji hi
    have h : ¬ i < sp.length := by omega
    rw [compact_step_end keep sp i j h]
    have : sp.drop i = [] := List.drop_eq_nil_of_le (by omega)
    simp [this]
  | succ n ih =>
    intro sp i j hn hji hi
    have h : i < sp.length := by omega
    by_cases hk : keep sp[i] = true
    · rw [compact_step_keep keep sp i j h hk]
      have hlen : (if i ≠ j then sp.set j sp[i] else sp).length = sp.length := by split <;> simp
      rw [ih _ (i+1) (j+1) (by rw [hlen]; omega) (by omega) (by rw [hlen]; omega)]
      have hd : (if i ≠ j then sp.set j sp[i] else sp).drop (i + 1) = sp.drop (i + 1) := by
        split
        · rw [List.drop_set_of_lt (by omega)]
        · rfl
      have hjl : j < sp.length := by omega
      have ht : (if i ≠ j then sp.set j sp[i] else sp).take (j + 1) = sp.take j ++ [sp[i]] := by
        split
        · rw [List.take_add_one, List.take_set_of_le (Nat.le_refl j)]
          simp [hjl]
        · next hij =>
          simp at hij; subst hij
          rw [List.take_add_one]; simp [h]
      rw [hd, ht]
      have hdi : sp.drop i = sp[i] :: sp.drop (i + 1) := List.drop_eq_getElem_cons h
      rw [hdi, List.filter_cons]; simp [hk]
    · have hk' : keep sp[i] = false := by simpa using hk
      rw [compact_step_drop keep sp i j h hk']
      rw [ih sp (i+1) j (by omega) (by omega) (by omega)]
      have hdi : sp.drop i = sp[i] :: sp.drop (i + 1) := List.drop_eq_getElem_cons h
      rw [hdi, List.filter_cons]; simp [hk']

theorem deleteWith_eq_filter (keep : Pair → Bool) (sp : Params) : deleteWith keep sp = sp.filter keep := by
  unfold deleteWith
  have := compactLoop_spec keep (sp.length - 0) sp 0 0 rfl (Nat.le_refl 0) (Nat.zero_le _)
  simpa using this

/-! ### percent-encoding -/

def hexOK (c : UInt8) : Bool :=
    isHex (upperHexDigit (c >>> 4)) && isHex (upperHexDigit (c &&& 15)) &&
    (unhex (upperHexDigit (c >>> 4)) <<< 4 ||| unhex (upperHexDigit (c &&& 15))) == c &&
    upperHexDigit (c >>> 4) != 38 && upperHexDigit (c >>> 4) != 61 &&
    upperHexDigit (c &&& 15) != 38 && upperHexDigit (c &&& 15) != 61

theorem hexOK_fin : ∀ n : Fin 256, hexOK (UInt8.ofNat n.val) = true := by decide +kernel

theorem hexOK_all (c : UInt8) : hexOK c = true := by
  have h := hexOK_fin ⟨c.toNat, c.toNat_lt⟩
  simpa [UInt8.ofNat_toNat] using h

theorem hex_roundtrip (c : UInt8) :
    isHex (upperHexDigit (c >>> 4)) = true ∧ isHex (upperHexDigit (c &&& 15)) = true ∧
    (unhex (upperHexDigit (c >>> 4)) <<< 4 ||| unhex (upperHexDigit (c &&& 15))) = c := by
  have h := hexOK_all c
  simp only [hexOK, Bool.and_eq_true, beq_iff_eq] at h
  exact ⟨h.1.1.1.1.1.1, h.1.1.1.1.1.2, h.1.1.1.1.2⟩

/-- what the escape table must satisfy: the characters the parser treats specially are never copied literally -/
def TableOK (safe : UInt8 → Bool) : Prop :=
  safe 37 = false ∧ safe 43 = false ∧ safe 38 = false ∧ safe 61 = false ∧ safe 63 = false

theorem unescape_escByte (safe : UInt8 → Bool) (h : TableOK safe) (c : UInt8) (rest : Bytes) :
    unescape (escByte safe c ++ rest) = c :: unescape rest := by
  unfold escByte
  split
  · next hc => subst hc; simp [unescape]
  · split
    · have := hex_roundtrip c
      simp [unescape, this]
    · next hne hs =>
      simp at hs
      have h37 : c ≠ 37 := by intro e; subst e; simp [h.1] at hs
      have h43 : c ≠ 43 := by intro e; subst e; simp [h.2.1] at hs
      simp only [List.cons_append, List.nil_append]
      rw [unescape.eq_def]
      split <;> simp_all

/-- decoding what was encoded gives the bytes back — for every byte string -/
theorem unescape_escape (safe : UInt8 → Bool) (h : TableOK safe) (s : Bytes) :
    unescape (escape safe s) = s := by
  induction s with
  | nil => simp [escape, unescape]
  | cons c cs ih =>
    simp only [escape, List.flatMap_cons] at *
    rw [unescape_escByte safe h, ih]

/-- the escaped form never contains `&` or `=` and never starts with `?` -/
theorem escByte_no_special (safe : UInt8 → Bool) (h : TableOK safe) (c : UInt8) :
    ∀ b ∈ escByte safe c, b ≠ 38 ∧ b ≠ 61 ∧ b ≠ 63 := by
  have hk := hexOK_all c
  simp only [hexOK, Bool.and_eq_true, bne_iff_ne, ne_eq] at hk
  obtain ⟨⟨⟨⟨⟨⟨h1, h2⟩, _⟩, n1⟩, n2⟩, n3⟩, n4⟩ := hk
  unfold escByte
  intro b hb
  split at hb
  · simp at hb; subst hb; decide
  · split at hb
    · simp at hb
      have q1 : upperHexDigit (c >>> 4) ≠ 63 := by
        intro e; rw [e] at h1; revert h1; decide
      have q2 : upperHexDigit (c &&& 15) ≠ 63 := by
        intro e; rw [e] at h2; revert h2; decide
      rcases hb with hb | hb | hb <;> subst hb
      · decide
      · exact ⟨n1, n2, q1⟩
      · exact ⟨n3, n4, q2⟩
    · next hne hs =>
      simp at hb hs; subst hb
      refine ⟨?_, ?_, ?_⟩ <;> intro e <;> subst e
      · simp [h.2.2.1] at hs
      · simp [h.2.2.2.1] at hs
      · simp [h.2.2.2.2] at hs

theorem escape_no_special (safe : UInt8 → Bool) (h : TableOK safe) (s : Bytes) :
    ∀ b ∈ escape safe s, b ≠ 38 ∧ b ≠ 61 ∧ b ≠ 63 := by
  intro b hb
  simp only [escape, List.mem_flatMap] at hb
  obtain ⟨c, _, hc⟩ := hb
  exact escByte_no_special safe h c b hc

end GN.Url
