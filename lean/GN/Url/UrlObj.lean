import GN.Url.NetUrl
import GN.Url.Idna
import GN.Generated.UrlTables

/-!
# The URL class of url/url.go + url/nodeurl.go as a state machine   [C13, C14]

State = Go's `url.URL` value plus the lazily created `searchParams` list.  Every function below transcribes the
function of the same name in url/url.go (after the C13/C14 repairs); the library calls go to `GN.Url.Net` / `GN.Url.Idna`.
The special-scheme sets, the default-port table and the query escape table are regenerated from the source on every run
(`GN.Generated`).
-/

namespace GN.Url.Obj
open GN GN.Url GN.Url.Net

inductive Err where
  | invalidURL | invalidBase | notAbsolute | invalidHostname
  | noclaim            -- the input left the domain the library models cover
  deriving Repr, BEq, DecidableEq, Inhabited

def bytesOf (s : String) : Bytes := s.toUTF8.toList

def isSpecialProtocol (p : Bytes) : Bool := Generated.specialProtocols.any fun s => bytesOf s == p
def isSpecialNetProtocol (p : Bytes) : Bool := Generated.specialNetProtocols.any fun s => bytesOf s == p

/-- `isDefaultURLPort` (the table is regenerated from the switch in url.go) -/
def isDefaultURLPort (proto : Bytes) (port : Nat) : Bool :=
  Generated.defaultPorts.any fun (p, protos) => p == port && protos.any fun s => bytesOf s == proto

def safeQuery (c : UInt8) : Bool := Generated.tblEscapeURLQuery.getD c.toNat 0 != 0

/-- `escape(s, &tblEscapeURLQuery, false)` -/
def escapeQuery (s : Bytes) : Bytes :=
  s.flatMap fun c => if c > 127 || !safeQuery c then [37, upperHexDigit (c >>> 4), upperHexDigit (c &&& 15)] else [c]

def natOfDigits (s : Bytes) : Nat := s.foldl (fun n c => n * 10 + (c.toNat - 48)) 0

/-- `strconv.Atoi` on a string of decimal digits (what `Port()` returns): fails when empty or out of int64 range -/
def atoi (s : Bytes) : Option Nat :=
  if s == [] || !s.all isDigit then none
  else let n := natOfDigits s; if n ≥ 2 ^ 63 then none else some n

def itoa (n : Nat) : Bytes := bytesOf (toString n)

def trimSuffix (s suf : Bytes) : Bytes := if hasSuffix s suf then s.take (s.length - suf.length) else s
def trimPrefix (s pre : Bytes) : Bytes := if hasPrefix s pre then s.drop pre.length else s

/-- `hostWithoutPort` -/
def hostWithoutPort (u : URL) : Bytes :=
  if u.port != [] then trimSuffix u.host (58 :: u.port) else trimSuffix u.host [58]

def clearURLPort (u : URL) : URL := { u with host := hostWithoutPort u }

/-- `validHostColons` -/
def validHostColons (u : URL) : Bool :=
  let h := hostWithoutPort u
  hasPrefix h [91] || !h.contains 58

/-- `cleanPath` -/
def cleanPath (p proto : Bytes) : Bytes :=
  let p := if !hasPrefix p [47] && (isSpecialProtocol proto || p != []) then 47 :: p else p
  if p != [] then
    let c := pathClean p
    if c != [47] && (hasSuffix p [47] || hasSuffix p [47, 46] || hasSuffix p [47, 46, 46]) then c ++ [47] else c
  else []

def fixRawQuery (u : URL) : URL := if u.rawQuery != [] then { u with rawQuery := escapeQuery u.rawQuery } else u

/-- `fixURL` -/
def fixURL (u : URL) : Except Err URL := do
  let u := { u with path := cleanPath u.path u.scheme }
  let u := { u with host := trimSuffix u.host [58] }
  let u ←
    if hasPrefix u.host [91] then
      if u.host.all (· < 128) then pure { u with host := toLowerAscii u.host } else throw Err.noclaim
    else if isSpecialNetProtocol u.scheme then
      let hostname := u.hostname
      match Idna.toASCII hostname with
      | .noclaim => throw Err.noclaim
      | .error => throw Err.invalidHostname
      | .ok ch =>
        if ch != hostname then
          pure { u with host := if u.port != [] then ch ++ 58 :: u.port else ch }
        else pure u
    else pure u
  pure (fixRawQuery u)

/-- `normalizeURL` -/
def normalizeURL (u : URL) : Except Err URL := do
  if isSpecialNetProtocol u.scheme && u.host == [] && u.path == [] then throw Err.invalidURL
  if !validHostColons u then throw Err.invalidURL
  let u :=
    if u.port != [] then
      match atoi u.port with
      | none => clearURLPort u
      | some n => if isDefaultURLPort u.scheme n then clearURLPort u else u
    else u
  fixURL u

/-- `parseURL` -/
def parseURL (s : Bytes) (isBase : Bool) : Except Err URL :=
  match Net.Parse s with
  | none => throw (if isBase then Err.invalidBase else Err.invalidURL)
  | some u => if isBase && !u.isAbs then throw Err.notAbsolute else normalizeURL u

/-- the constructor: `new URL(s)` / `new URL(ref, base)` -/
def construct (s : Bytes) (base : Option Bytes) : Except Err URL :=
  match base with
  | none => parseURL s true
  | some b => do
    let baseU ← parseURL b true
    match Net.Parse s with
    | none => throw Err.invalidURL
    | some ref =>
      if ref.isAbs then parseURL s false
      else
        let u := resolveReference baseU ref
        normalizeURL { u with fragment := ref.fragment, rawFragment := ref.rawFragment }

/-- `validHost` -/
def validHost (scheme host : Bytes) : Except Err Bool :=
  match ParseRequestURI (scheme ++ [58, 47, 47] ++ host) with
  | none => pure false
  | some p =>
    if p.host != host || p.user.isSome || p.path != [] || p.rawQuery != [] || p.fragment != [] then pure false
    else if !validHostColons p then pure false
    else do
      let idnOk ←
        if isSpecialNetProtocol scheme then
          if p.hostname == [] then pure false
          else if !hasPrefix host [91] then
            match Idna.toASCII p.hostname with
            | .noclaim => throw Err.noclaim
            | .error => pure false
            | .ok _ => pure true
          else pure true
        else pure true
      if !idnOk then pure false
      else if p.port != [] then
        match atoi p.port with
        | none => pure false
        | some n => pure (n ≤ 65535)
      else pure true

/-- `dropDefaultPort` -/
def dropDefaultPort (u : URL) : URL :=
  match atoi u.port with
  | some n => if isDefaultURLPort u.scheme n then clearURLPort u else u
  | none => u

/-- the value handed to the `port` setter: an integral JS number (goja exports it as int64) or anything else, as its
string conversion -/
inductive PortArg where
  | int (n : Int)
  | str (s : Bytes)
  deriving Repr, Inhabited

/-- the digit loop of `valueToURLPort` -/
def portDigits : Bytes → Int → Int
  | [], acc => acc
  | c :: rest, acc =>
    if isDigit c then
      let acc := (if acc == -1 then 0 else acc) * 10 + (c.toNat - 48 : Nat)
      if acc > 65535 then -1 else portDigits rest acc
    else acc

/-- `valueToURLPort`: (portNum, empty) -/
def valueToURLPort : PortArg → Int × Bool
  | .int num => if num < 0 then (-1, true) else if num ≤ 65535 then (num, false) else (-1, false)
  | .str s =>
    if s == [] then (0, true)
    else match s.findIdx? isDigit with
      | none => (-1, false)
      | some i => if i > 0 then (0, true) else (portDigits s (-1), false)

/-- `setURLPort` -/
def setURLPort (u : URL) (v : PortArg) : URL :=
  if u.scheme == bytesOf "file" then u
  else
    let (portNum, empty) := valueToURLPort v
    if empty then clearURLPort u
    else if portNum == -1 then u
    else if isDefaultURLPort u.scheme portNum.toNat then clearURLPort u
    else { u with host := hostWithoutPort u ++ 58 :: itoa portNum.toNat }

/-! ## the object -/

structure St where
  url : URL
  sp : Option Params := none
  deriving Repr, Inhabited

def parseParams (q : Bytes) : Params := Url.parseBody q

/-- `syncSearchParams` -/
def St.sync (st : St) : St :=
  match st.sp with
  | some l => if l.length > 0 && st.url.rawQuery == [] then { st with url := { st.url with rawQuery := serialize l } } else st
  | none => st

/-- `markUpdated` -/
def St.markUpdated (st : St) : St :=
  if st.url.rawQuery != [] then { st with url := { st.url with rawQuery := [] } } else st

def St.refreshParams (st : St) : St :=
  match st.sp with
  | some _ => { st with sp := some (parseParams st.url.rawQuery) }
  | none => st

inductive Prop' where
  | href | protocol | username | password | host | hostname | port | pathname | search | hash
  deriving Repr, DecidableEq, Inhabited

inductive Op where
  | set (p : Prop') (v : Bytes)
  | setPort (v : PortArg)
  | getSP
  | spAppend (k v : Bytes)
  | spDelete (k : Bytes) (v : Option Bytes)
  | spSet (k v : Bytes)
  | spSort
  deriving Repr, Inhabited

def hasNonAscii (s : Bytes) : Bool := s.any (· ≥ 128)

/-- one operation; `Except.error` = the call throws (state unchanged) or leaves the modelled domain -/
def step (st : St) : Op → Except Err St
  | .set .host host => do
    if ← validHost st.url.scheme host then
      let u ← fixURL { st.url with host := host }
      pure { st with url := dropDefaultPort u }
    else pure st
  | .set .hash h =>
    let h := match h with
      | 35 :: rest => rest
      | h => h
    pure { st with url := { st.url with fragment := h } }
  | .set .hostname h => do
    if h.contains 58 then pure st
    else if ← validHost st.url.scheme h then
      let u ← fixURL { st.url with host := if st.url.port != [] then h ++ 58 :: st.url.port else h }
      pure { st with url := u }
    else pure st
  | .set .href v => do
    let u ← parseURL v true
    pure ({ st with url := u }).refreshParams
  | .set .pathname v => pure { st with url := { st.url with path := cleanPath v st.url.scheme } }
  | .set .password v =>
    let un := match st.url.user with
      | some u => u.username
      | none => []
    pure { st with url := { st.url with user := some ⟨un, v, true⟩ } }
  | .set .username v =>
    let user := match st.url.user with
      | some u => if u.passwordSet then User.mk v u.password true else ⟨v, [], false⟩
      | none => ⟨v, [], false⟩
    pure { st with url := { st.url with user := some user } }
  | .set .port v => pure { st with url := setURLPort st.url (.str v) }
  | .setPort v => pure { st with url := setURLPort st.url v }
  | .set .protocol v => do
    let s := (cut v 58).1
    if hasNonAscii s then throw Err.noclaim
    let s := toLowerAscii s
    if isSpecialProtocol st.url.scheme == isSpecialProtocol s
        && (match ParseRequestURI (s ++ [58, 47, 47] ++ st.url.host) with
            | some p => p.scheme == s      -- "/x" parses too, as a path without a scheme
            | none => false) then
      let hostOk ← if isSpecialNetProtocol s then
          (if st.url.opaq == [] then validHost s st.url.host else pure false) else pure true
      if hostOk then
        let u ← fixURL { st.url with scheme := s }
        pure { st with url := dropDefaultPort u }
      else pure st
    else pure st
  | .set .search v =>
    let u := fixRawQuery { st.url with rawQuery := trimPrefix v [63] }
    pure ({ st with url := u }).refreshParams
  | .getSP =>
    match st.sp with
    | some _ => pure st
    | none => pure { st with sp := some (parseParams st.url.rawQuery) }
  | .spAppend k v => pure ({ st with sp := st.sp.map fun l => append l k v }).markUpdated
  | .spDelete k v => pure ({ st with sp := st.sp.map fun l => delete l k v }).markUpdated
  | .spSet k v => pure ({ st with sp := st.sp.map fun l => set l k v }).markUpdated
  | .spSort => pure ({ st with sp := st.sp.map sort }).markUpdated

/-! ## getters -/

structure Obs where
  href : Bytes
  protocol : Bytes
  username : Bytes
  password : Bytes
  host : Bytes
  hostname : Bytes
  port : Bytes
  pathname : Bytes
  search : Bytes
  hash : Bytes
  origin : Bytes
  params : Option Params
  deriving Repr, BEq, Inhabited

/-- all getters; `href`, `toString()`, `toJSON()` and `search` synchronise the query first -/
def observe (st : St) : St × Obs :=
  let st := st.sync
  let u := st.url
  (st, {
    href := u.str
    protocol := u.scheme ++ [58]
    username := match u.user with
      | some x => x.username
      | none => []
    password := match u.user with
      | some x => x.password
      | none => []
    host := u.host
    hostname := hostWithoutPort u
    port := u.port
    pathname := u.escapedPath
    search := if u.rawQuery != [] then 63 :: u.rawQuery else []
    hash := if u.fragment != [] then 35 :: u.escapedFragment else []
    origin := u.scheme ++ [58, 47, 47] ++ u.hostname
    params := st.sp })

end GN.Url.Obj
