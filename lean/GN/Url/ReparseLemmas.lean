import GN.Url.ReparseSpec
import GN.Url.ObjLemmas
import GN.Url.PathLemmas

/-!
# C13: "href can be parsed again by `new URL()` and yields the same href" — proof

`reparseStable : ReparseStable` (last theorem of the file) holds for the model with the repaired `protocol` setter.
Before that repair the statement was false (`u.protocol = "/x"` on a non-special URL stored the scheme `/x`; the state
is kept below as `cexUrl0`/`cex_step_ignored`, which now shows that the assignment is ignored).

Structure of the proof:
* `Lay`/`reparse`/`Parse_str`/`reparse_str`: how `URL.String` lays an `href` out and that `Parse` cuts it at exactly
  those places (`reparseStable_partial_layout` is the statement for one state under these layout conditions);
* `NormOK`/`normalize_reparse`: re-normalising the re-parsed URL changes nothing that is printed;
* invariants of reachable states: `RInv` (lower-case scheme, opaque part, `cleanPath` fixed point via `cleanPath_idem`,
  host decomposition `HostInv2` incl. idempotence of `Idna.toASCII`, `idna_idem`), `RawOK` (stored raw path),
  `scheme_reach` (scheme syntax), `LegalH` (bytes of a host that is not bracketed), `ZH`/`B128` (bracketed hosts,
  with or without zone id);
* the intermediate partial results (`reparseStable_partial_*`) are kept: they are corollaries with explicit hypotheses.
-/

namespace GN.Url.Obj
open GN GN.Url GN.Url.Net

/-! ## what the escapers emit -/

theorem byte_all (P : UInt8 → Bool) (h : ∀ n : Fin 256, P (UInt8.ofNat n.val) = true) (c : UInt8) : P c = true := by
  have := h ⟨c.toNat, c.toNat_lt⟩
  simpa [UInt8.ofNat_toNat] using this

theorem escape_all (m : Mode) (P : UInt8 → Bool) (h : ∀ c, (Net.escByte m c).all P = true) (s : Bytes) :
    (Net.escape m s).all P = true := by
  unfold Net.escape
  simp only [List.all_flatMap]
  simp [h]

/-- bytes that may not occur unescaped in the userinfo / host / path part of an href -/
def notDelim (c : UInt8) : Bool := c != 47 && c != 63 && c != 35 && !(c < 32 || c == 127)

theorem escUser_fin : ∀ n : Fin 256, (Net.escByte .userPassword (UInt8.ofNat n.val)).all
    (fun c => notDelim c && c != 64 && c != 58 && validUserinfo [c]) = true := by decide +kernel
theorem escHost_fin : ∀ n : Fin 256, (Net.escByte .host (UInt8.ofNat n.val)).all
    (fun c => notDelim c && c != 64) = true := by decide +kernel
theorem escPath_fin : ∀ n : Fin 256, (Net.escByte .path (UInt8.ofNat n.val)).all
    (fun c => c != 63 && c != 35 && !(c < 32 || c == 127)) = true := by decide +kernel
theorem escFrag_fin : ∀ n : Fin 256, (Net.escByte .fragment (UInt8.ofNat n.val)).all
    (fun c => c != 35 && !(c < 32 || c == 127)) = true := by decide +kernel

theorem escUser_all (s : Bytes) : (Net.escape .userPassword s).all
    (fun c => notDelim c && c != 64 && c != 58 && validUserinfo [c]) = true :=
  escape_all _ _ (byte_all _ escUser_fin) s
theorem escHost_all (s : Bytes) : (Net.escape .host s).all (fun c => notDelim c && c != 64) = true :=
  escape_all _ _ (byte_all _ escHost_fin) s
theorem escPath_all (s : Bytes) : (Net.escape .path s).all (fun c => c != 63 && c != 35 && !(c < 32 || c == 127)) = true :=
  escape_all _ _ (byte_all _ escPath_fin) s
theorem escFrag_all (s : Bytes) : (Net.escape .fragment s).all (fun c => c != 35 && !(c < 32 || c == 127)) = true :=
  escape_all _ _ (byte_all _ escFrag_fin) s

/-! ## `cut` -/

theorem cut_none (s : Bytes) (c : UInt8) (h : c ∉ s) : cut s c = (s, [], false) := by
  unfold cut; rw [indexByte_eq_none s c h]

theorem cut_append (a b : Bytes) (c : UInt8) (h : c ∉ a) : cut (a ++ c :: b) c = (a, b, true) := by
  unfold cut; rw [indexByte_append a b c h]; simp

/-- the part of `parse _ false` after the scheme and the query have been cut off -/
def parseTail (scheme rest rawQuery : Bytes) (forceQuery : Bool) : Option URL :=
  if !hasPrefix rest [47] && scheme != [] then
    some { scheme := scheme, opaq := rest, rawQuery := rawQuery, forceQuery := forceQuery }
  else if !hasPrefix rest [47] && (cut rest 47).1.contains 58 then none
  else if (scheme != [] || !hasPrefix rest [47, 47, 47]) && hasPrefix rest [47, 47] then
    let a := rest.drop 2
    let (authority, rest') := match indexByte a 47 with
      | some i => (a.take i, a.drop i)
      | none => (a, [])
    match parseAuthority authority with
    | none => none
    | some (user, host) =>
      setPath { scheme := scheme, user := user, host := host, rawQuery := rawQuery, forceQuery := forceQuery } rest'
  else
    setPath { scheme := scheme, omitHost := scheme != [] && hasPrefix rest [47],
              rawQuery := rawQuery, forceQuery := forceQuery } rest

theorem parse_eq_tail (raw scheme0 rest0 : Bytes) (h1 : containsCTL raw = false) (h2 : raw ≠ [42])
    (h3 : getScheme raw = some (scheme0, rest0)) :
    Net.parse raw false =
      if hasSuffix rest0 [63] && countByte rest0 63 == 1 then parseTail (toLowerAscii scheme0) rest0.dropLast [] true
      else parseTail (toLowerAscii scheme0) (cut rest0 63).1 (cut rest0 63).2.1 false := by
  unfold Net.parse
  have h2' : (raw == [42]) = false := by simpa using h2
  simp only [h1, h2', h3, Bool.false_eq_true, if_false, Bool.and_false]
  split <;> rfl

/-! ## the scheme -/

def schemeTail (c : UInt8) : Bool := isAlpha c || isDigit c || c == 43 || c == 45 || c == 46

/-- `ALPHA *( ALPHA / DIGIT / "+" / "-" / "." )` -/
def validScheme : Bytes → Bool
  | [] => false
  | c :: t => isAlpha c && t.all schemeTail

theorem getSchemeAux_tail (raw rest : Bytes) : ∀ (t : Bytes) (i : Nat), 1 ≤ i → t.all schemeTail = true →
    getSchemeAux raw i (t ++ 58 :: rest) = some (raw.take (i + t.length), rest) := by
  intro t
  induction t with
  | nil =>
    intro i hi _
    have : (i == 0) = false := by simp; omega
    simp [getSchemeAux, isAlpha, isDigit, this]
  | cons c t ih =>
    intro i hi h
    simp only [List.all_cons, Bool.and_eq_true] at h
    have hc := h.1
    simp only [List.cons_append, getSchemeAux]
    have : (i == 0) = false := by simp; omega
    rw [ih (i + 1) (by omega) h.2]
    have e : i + 1 + t.length = i + (c :: t).length := by simp; omega
    rw [e]
    unfold schemeTail at hc
    by_cases ha : isAlpha c = true
    · simp [ha]
    · simp only [ha, Bool.false_or, Bool.or_eq_true] at hc
      simp [ha, this]
      intro hne
      rcases hc with ((hc | hc) | hc) | hc <;> simp_all

theorem getScheme_valid (s rest : Bytes) (h : validScheme s = true) : getScheme (s ++ 58 :: rest) = some (s, rest) := by
  cases s with
  | nil => cases h
  | cons c t =>
    simp only [validScheme, Bool.and_eq_true] at h
    unfold getScheme
    simp only [List.cons_append, getSchemeAux, h.1, if_true]
    rw [getSchemeAux_tail _ rest t 1 (Nat.le_refl _) h.2]
    congr 2
    have : 1 + t.length = (c :: t).length := by simp; omega
    rw [this]
    simp

theorem schemeTail_fin : ∀ n : Fin 256, (!schemeTail (UInt8.ofNat n.val) ||
    (UInt8.ofNat n.val != 35 && UInt8.ofNat n.val != 63 && UInt8.ofNat n.val != 42 &&
      !(UInt8.ofNat n.val < 32 || UInt8.ofNat n.val == 127))) = true := by decide +kernel

theorem isAlpha_schemeTail (c : UInt8) (h : isAlpha c = true) : schemeTail c = true := by simp [schemeTail, h]

theorem validScheme_all (s : Bytes) (h : validScheme s = true) :
    s ≠ [] ∧ s.all (fun c => c != 35 && c != 63 && c != 42 && !(c < 32 || c == 127)) = true := by
  cases s with
  | nil => cases h
  | cons c t =>
    simp only [validScheme, Bool.and_eq_true] at h
    refine ⟨by simp, ?_⟩
    have hall : (c :: t).all schemeTail = true := by
      simp only [List.all_cons, Bool.and_eq_true]; exact ⟨isAlpha_schemeTail c h.1, h.2⟩
    rw [List.all_eq_true] at hall ⊢
    intro x hx
    have := byte_all (fun x => !schemeTail x || (x != 35 && x != 63 && x != 42 && !(x < 32 || x == 127))) schemeTail_fin x
    simp only [Bool.or_eq_true, Bool.not_eq_true'] at this
    rcases this with h0 | h0
    · rw [hall x hx] at h0; cases h0
    · exact h0

/-! ## the escaped path and fragment -/

theorem validEncoded_path_fin : ∀ n : Fin 256,
    (!([33, 36, 38, 39, 40, 41, 42, 43, 44, 59, 61, 58, 64, 91, 93, 37].contains (UInt8.ofNat n.val) ||
        !shouldEscape (UInt8.ofNat n.val) .path) ||
      (UInt8.ofNat n.val != 63 && UInt8.ofNat n.val != 35 && !(UInt8.ofNat n.val < 32 || UInt8.ofNat n.val == 127))) = true := by
  decide +kernel

theorem validEncoded_frag_fin : ∀ n : Fin 256,
    (!([33, 36, 38, 39, 40, 41, 42, 43, 44, 59, 61, 58, 64, 91, 93, 37].contains (UInt8.ofNat n.val) ||
        !shouldEscape (UInt8.ofNat n.val) .fragment) ||
      (UInt8.ofNat n.val != 35 && !(UInt8.ofNat n.val < 32 || UInt8.ofNat n.val == 127))) = true := by
  decide +kernel

theorem validEncoded_path_all (r : Bytes) (h : validEncoded r .path = true) :
    r.all (fun c => c != 63 && c != 35 && !(c < 32 || c == 127)) = true := by
  unfold validEncoded at h
  rw [List.all_eq_true] at h ⊢
  intro x hx
  have := byte_all (fun x => !([33, 36, 38, 39, 40, 41, 42, 43, 44, 59, 61, 58, 64, 91, 93, 37].contains x ||
        !shouldEscape x .path) || (x != 63 && x != 35 && !(x < 32 || x == 127))) validEncoded_path_fin x
  simp only [Bool.or_eq_true, Bool.not_eq_true'] at this
  rcases this with h0 | h0
  · have := h x hx
    simp only [Bool.or_eq_true, Bool.not_eq_true'] at this
    simp only [Bool.or_eq_false_iff, Bool.not_eq_false'] at h0
    rcases this with h1 | h1
    · rw [h1] at h0; cases h0.1
    · rw [h1] at h0; cases h0.2
  · exact h0

theorem validEncoded_frag_all (r : Bytes) (h : validEncoded r .fragment = true) :
    r.all (fun c => c != 35 && !(c < 32 || c == 127)) = true := by
  unfold validEncoded at h
  rw [List.all_eq_true] at h ⊢
  intro x hx
  have := byte_all (fun x => !([33, 36, 38, 39, 40, 41, 42, 43, 44, 59, 61, 58, 64, 91, 93, 37].contains x ||
        !shouldEscape x .fragment) || (x != 35 && !(x < 32 || x == 127))) validEncoded_frag_fin x
  simp only [Bool.or_eq_true, Bool.not_eq_true'] at this
  rcases this with h0 | h0
  · have := h x hx
    simp only [Bool.or_eq_true, Bool.not_eq_true'] at this
    simp only [Bool.or_eq_false_iff, Bool.not_eq_false'] at h0
    rcases this with h1 | h1
    · rw [h1] at h0; cases h0.1
    · rw [h1] at h0; cases h0.2
  · exact h0

theorem unescape_escape_some (m : Mode) (hm : PlainMode m) (s : Bytes) : Net.unescape m (Net.escape m s) = some s := by
  have := unescape_escape m hm s
  simp [Net.unescape, this.1, this.2]

/-- the two shapes of `escapedPath` -/
theorem escapedPath_cases (u : URL) (hstar : u.path ≠ [42]) :
    (u.escapedPath = u.rawPath ∧ u.rawPath ≠ [] ∧ validEncoded u.rawPath .path = true ∧
      Net.unescape .path u.rawPath = some u.path) ∨ u.escapedPath = Net.escape .path u.path := by
  unfold URL.escapedPath
  split
  · next h =>
    simp only [Bool.and_eq_true, bne_iff_ne, ne_eq, beq_iff_eq] at h
    exact Or.inl ⟨rfl, h.1.1, h.1.2, h.2⟩
  · have : (u.path == [42]) = false := by simpa using hstar
    simp [this]

theorem escapedFragment_cases (u : URL) :
    (u.escapedFragment = u.rawFragment ∧ u.rawFragment ≠ [] ∧ validEncoded u.rawFragment .fragment = true ∧
      Net.unescape .fragment u.rawFragment = some u.fragment) ∨ u.escapedFragment = Net.escape .fragment u.fragment := by
  unfold URL.escapedFragment
  split
  · next h =>
    simp only [Bool.and_eq_true, bne_iff_ne, ne_eq, beq_iff_eq] at h
    exact Or.inl ⟨rfl, h.1.1, h.1.2, h.2⟩
  · exact Or.inr rfl

theorem escapedPath_unescape (u : URL) (hstar : u.path ≠ [42]) : Net.unescape .path u.escapedPath = some u.path := by
  rcases escapedPath_cases u hstar with ⟨e, _, _, h⟩ | e
  · rw [e]; exact h
  · rw [e]; exact unescape_escape_some _ (Or.inl rfl) _

theorem escapedFragment_unescape (u : URL) : Net.unescape .fragment u.escapedFragment = some u.fragment := by
  rcases escapedFragment_cases u with ⟨e, _, _, h⟩ | e
  · rw [e]; exact h
  · rw [e]; exact unescape_escape_some _ (Or.inr (Or.inl rfl)) _

theorem escapedPath_all (u : URL) (hstar : u.path ≠ [42]) :
    u.escapedPath.all (fun c => c != 63 && c != 35 && !(c < 32 || c == 127)) = true := by
  rcases escapedPath_cases u hstar with ⟨e, _, h, _⟩ | e
  · rw [e]; exact validEncoded_path_all _ h
  · rw [e]; exact escPath_all _

theorem escapedFragment_all (u : URL) :
    u.escapedFragment.all (fun c => c != 35 && !(c < 32 || c == 127)) = true := by
  rcases escapedFragment_cases u with ⟨e, _, h, _⟩ | e
  · rw [e]; exact validEncoded_frag_all _ h
  · rw [e]; exact escFrag_all _

theorem unescapeRaw_ne_nil (m : Mode) (r : Bytes) (h : r ≠ []) : unescapeRaw m r ≠ [] := by
  cases r with
  | nil => exact absurd rfl h
  | cons c t =>
    by_cases hc : c = 37
    · subst hc
      cases t with
      | nil => rw [unescapeRaw.eq_def]; simp
      | cons x t' =>
        cases t' with
        | nil => rw [unescapeRaw.eq_def]; simp
        | cons y t'' => rw [raw_pct]; simp
    · rw [raw_cons_ne m c t hc]; simp

theorem unescape_some' (m : Mode) (s r : Bytes) (h : Net.unescape m s = some r) : r = unescapeRaw m s :=
  (unescape_some m s r h).2

theorem escapedPath_nil (u : URL) (hstar : u.path ≠ [42]) : u.escapedPath = [] ↔ u.path = [] := by
  constructor
  · intro h
    have := escapedPath_unescape u hstar
    rw [h] at this
    have := unescape_some' _ _ _ this
    rw [this]; simp [unescapeRaw]
  · intro h
    rcases escapedPath_cases u hstar with ⟨_, hne, _, hu⟩ | e
    · have := unescape_some' _ _ _ hu
      rw [h] at this
      exact absurd this.symm (unescapeRaw_ne_nil _ _ hne)
    · rw [e, h]; rfl

theorem escByte_slash : Net.escByte .path 47 = [47] := by decide

theorem escapedPath_head (u : URL) (hstar : u.path ≠ [42]) (hp : hasPrefix u.path [47] = true)
    (hr : u.rawPath = [] ∨ hasPrefix u.rawPath [47] = true) : hasPrefix u.escapedPath [47] = true := by
  rcases escapedPath_cases u hstar with ⟨e, hne, _, _⟩ | e
  · rw [e]; exact hr.resolve_left hne
  · rw [e]
    obtain ⟨t, et⟩ := (hasPrefix_iff _ _).1 hp
    rw [et]
    exact (hasPrefix_iff _ _).2 ⟨Net.escape .path t, by simp [Net.escape, escByte_slash]⟩

theorem escByte_head_ne (c : UInt8) (h : c ≠ 47) : ∃ x t, Net.escByte .path c = x :: t ∧ x ≠ 47 := by
  unfold Net.escByte
  split
  · exact ⟨43, [], rfl, by decide⟩
  · split
    · exact ⟨37, _, rfl, by decide⟩
    · exact ⟨c, [], rfl, h⟩

theorem escapedPath_no_dslash (u : URL) (hstar : u.path ≠ [42]) (hp : hasPrefix u.path [47, 47] = false) :
    hasPrefix u.escapedPath [47, 47] = false := by
  cases hh : hasPrefix u.escapedPath [47, 47] with
  | false => rfl
  | true =>
    exfalso
    obtain ⟨t, et⟩ := (hasPrefix_iff _ _).1 hh
    rcases escapedPath_cases u hstar with ⟨e, _, _, hu⟩ | e
    · have := unescape_some' _ _ _ hu
      rw [← e, et] at this
      simp only [List.cons_append, List.nil_append] at this
      rw [raw_cons_ne _ 47 _ (by decide), raw_cons_ne _ 47 _ (by decide)] at this
      have hpre : hasPrefix u.path [47, 47] = true := (hasPrefix_iff _ _).2 ⟨_, by rw [this]; rfl⟩
      rw [hp] at hpre; cases hpre
    · rw [e] at et
      cases hpth : u.path with
      | nil => rw [hpth] at et; simp [Net.escape] at et
      | cons c1 t1 =>
        rw [hpth] at et
        by_cases h1 : c1 = 47
        · subst h1
          cases t1 with
          | nil => simp [Net.escape, escByte_slash] at et
          | cons c2 t2 =>
            by_cases h2 : c2 = 47
            · subst h2
              rw [hpth] at hp
              have : hasPrefix (47 :: 47 :: t2) [47, 47] = true := (hasPrefix_iff _ _).2 ⟨t2, rfl⟩
              rw [hp] at this; cases this
            · obtain ⟨x, tx, ex, hx⟩ := escByte_head_ne c2 h2
              simp only [Net.escape, List.flatMap_cons, escByte_slash, ex, List.cons_append, List.nil_append,
                List.cons.injEq, true_and] at et
              exact hx et.1
        · obtain ⟨x, tx, ex, hx⟩ := escByte_head_ne c1 h1
          simp only [Net.escape, List.flatMap_cons, ex, List.cons_append, List.cons.injEq] at et
          exact hx et.1

/-- re-parsing the printed path gives a URL that prints the same path -/
theorem escapedPath_stable (u u' : URL) (hstar : u.path ≠ [42]) (hp : u'.path = u.path)
    (hr : u'.rawPath = if u.escapedPath == Net.escape .path u.path then [] else u.escapedPath) :
    u'.escapedPath = u.escapedPath := by
  have hstar' : (u'.path == [42]) = false := by rw [hp]; simpa using hstar
  by_cases he : u.escapedPath = Net.escape .path u.path
  · have : u'.rawPath = [] := by rw [hr]; simp [he]
    rw [he]
    unfold URL.escapedPath
    simp only [this, bne_self_eq_false, Bool.false_and, Bool.false_eq_true, if_false, hstar']
    rw [hp]
  · have hr' : u'.rawPath = u.escapedPath := by
      rw [hr]
      have : (u.escapedPath == Net.escape .path u.path) = false := by simpa using he
      simp [this]
    rcases escapedPath_cases u hstar with ⟨e, hne, hv, hu⟩ | e
    · conv => lhs; unfold URL.escapedPath
      rw [hr', hp, e]
      have : (u.rawPath != []) = true := by simpa using hne
      simp [this, hv, hu]
    · exact absurd e he

theorem escapedFragment_stable (u u' : URL) (hp : u'.fragment = u.fragment)
    (hr : u'.rawFragment = if u.escapedFragment == Net.escape .fragment u.fragment then [] else u.escapedFragment) :
    u'.escapedFragment = u.escapedFragment := by
  by_cases he : u.escapedFragment = Net.escape .fragment u.fragment
  · have : u'.rawFragment = [] := by rw [hr]; simp [he]
    rw [he]
    unfold URL.escapedFragment
    simp only [this, bne_self_eq_false, Bool.false_and, Bool.false_eq_true, if_false]
    rw [hp]
  · have hr' : u'.rawFragment = u.escapedFragment := by
      rw [hr]
      have : (u.escapedFragment == Net.escape .fragment u.fragment) = false := by simpa using he
      simp [this]
    rcases escapedFragment_cases u with ⟨e, hne, hv, hu⟩ | e
    · conv => lhs; unfold URL.escapedFragment
      rw [hr', hp, e]
      have : (u.rawFragment != []) = true := by simpa using hne
      simp [this, hv, hu]
    · exact absurd e he

/-! ## the layout of `href` -/

def qStr (u : URL) : Bytes := if u.forceQuery || u.rawQuery != [] then 63 :: u.rawQuery else []
def fStr (u : URL) : Bytes := if u.fragment != [] then 35 :: u.escapedFragment else []
def userStr (u : URL) : Bytes :=
  match u.user with
  | some ui => ui.str ++ [64]
  | none => []
def hostStr (u : URL) : Bytes := if u.host != [] then Net.escape .host u.host else []

/-- no `//authority` is printed -/
def authless (u : URL) : Bool :=
  (u.omitHost && u.host == [] && u.user.isNone) || (u.host == [] && u.path == [] && u.user.isNone)

def bodyStr (u : URL) : Bytes :=
  if u.opaq != [] then u.opaq
  else if authless u then u.escapedPath
  else 47 :: 47 :: (userStr u ++ hostStr u ++ u.escapedPath)

theorem str_eq (u : URL) (hs : u.scheme ≠ []) (hstar : u.path ≠ [42])
    (hslash : u.path = [] ∨ hasPrefix u.escapedPath [47] = true) :
    u.str = u.scheme ++ 58 :: (bodyStr u ++ qStr u) ++ fStr u := by
  have hs' : (u.scheme != []) = true := by simpa using hs
  have hhead : (u.escapedPath != [] && u.escapedPath.head? != some 47 && u.host != []) = false := by
    rcases hslash with h | h
    · have := (escapedPath_nil u hstar).2 h
      simp [this]
    · obtain ⟨t, et⟩ := (hasPrefix_iff _ _).1 h
      simp [et]
  unfold URL.str bodyStr qStr fStr
  simp only [hs', if_true, hhead, Bool.false_eq_true, if_false, Bool.true_or]
  by_cases ho : u.opaq = []
  · have ho' : (u.opaq != []) = false := by simp [ho]
    simp only [ho', Bool.false_eq_true, if_false]
    by_cases ha : authless u = true
    · simp only [ha, if_true]
      unfold authless at ha
      simp only [Bool.or_eq_true, Bool.and_eq_true, beq_iff_eq] at ha
      rcases ha with ⟨⟨h1, h2⟩, h3⟩ | ⟨⟨h1, h2⟩, h3⟩
      · simp [h1, h2, h3]
      · have hn : u.user = none := by simpa using h3
        simp [h1, h2, hn]
    · have ha' : authless u = false := by simpa using ha
      simp only [ha', Bool.false_eq_true, if_false]
      unfold authless at ha'
      rw [Bool.or_eq_false_iff] at ha'
      have h1 : (u.omitHost && u.host == [] && u.user.isNone) = false := ha'.1
      have h2 : (u.host != [] || u.path != [] || u.user.isSome) = true := by
        have := ha'.2
        cases hu : u.user with
        | some x => simp
        | none =>
          simp only [hu, Option.isNone_none, Bool.and_true, Bool.and_eq_false_iff, beq_eq_false_iff_ne] at this
          rcases this with h | h
          · simp [h]
          · simp [h]
      simp only [h1, h2, Bool.false_eq_true, if_false, if_true, userStr, hostStr]
      cases hu : u.user <;> simp
  · have ho' : (u.opaq != []) = true := by simpa using ho
    simp [ho']

theorem containsCTL_append (a b : Bytes) : containsCTL (a ++ b) = (containsCTL a || containsCTL b) := by
  simp [containsCTL, List.any_append]

theorem containsCTL_cons (c : UInt8) (b : Bytes) : containsCTL (c :: b) = ((c < 32 || c == 127) || containsCTL b) := by
  simp [containsCTL]

theorem noCTL_of_all (s : Bytes) (P : UInt8 → Bool) (h : s.all P = true)
    (hP : ∀ c, P c = true → (c < 32 || c == 127) = false) : containsCTL s = false := by
  unfold containsCTL
  rw [List.any_eq_false]
  intro x hx
  have := hP x (List.all_eq_true.1 h x hx)
  simpa using this

theorem not_mem_of_all (s : Bytes) (P : UInt8 → Bool) (c : UInt8) (h : s.all P = true) (hc : P c = false) : c ∉ s := by
  intro hm
  have := List.all_eq_true.1 h c hm
  rw [hc] at this; cases this

theorem query_split (s body q : Bytes) (fq : Bool) (hb : (63 : UInt8) ∉ body) :
    (let rest0 := body ++ (if fq || q != [] then 63 :: q else [])
     if hasSuffix rest0 [63] && countByte rest0 63 == 1 then parseTail s rest0.dropLast [] true
      else parseTail s (cut rest0 63).1 (cut rest0 63).2.1 false) = parseTail s body q (fq && q == []) := by
  simp only
  have hcnt : countByte body 63 = 0 := by unfold countByte; exact List.count_eq_zero.2 hb
  cases q with
  | nil =>
    cases fq with
    | false =>
      simp only [Bool.false_or, bne_self_eq_false, Bool.false_eq_true, if_false, List.append_nil, Bool.false_and]
      have : hasSuffix body [63] = false := by
        cases h : hasSuffix body [63] with
        | false => rfl
        | true =>
          obtain ⟨a, e⟩ := (hasSuffix_iff _ _).1 h
          exact absurd (by rw [e]; simp) hb
      simp [this, cut_none body 63 hb]
    | true =>
      simp only [Bool.true_or, if_true, Bool.true_and, beq_self_eq_true]
      have h1 : hasSuffix (body ++ [63]) [63] = true := hasSuffix_append body [63]
      have h2 : countByte (body ++ [63]) 63 = 1 := by
        unfold countByte at *; simp [List.count_append, hcnt]
      simp [h1, h2]
  | cons c t =>
    have hne : ((c :: t) != []) = true := by simp
    have hq : ((c :: t) == []) = false := by simp
    simp only [hne, Bool.or_true, if_true, hq, Bool.and_false]
    have hfalse : (hasSuffix (body ++ 63 :: c :: t) [63] && countByte (body ++ 63 :: c :: t) 63 == 1) = false := by
      cases h : hasSuffix (body ++ 63 :: c :: t) [63] with
      | false => rfl
      | true =>
        obtain ⟨a, e⟩ := (hasSuffix_iff _ _).1 h
        have hl : (body ++ 63 :: c :: t).getLast? = some 63 := by rw [e]; simp
        rw [show body ++ 63 :: c :: t = (body ++ [63]) ++ (c :: t) by simp, List.getLast?_append,
          List.getLast?_eq_some_getLast (List.cons_ne_nil c t)] at hl
        simp only [Option.some_or, Option.some.injEq] at hl
        have hm : (63 : UInt8) ∈ c :: t := by rw [← hl]; exact List.getLast_mem _
        have : 0 < List.count 63 (c :: t) := List.count_pos_iff.2 hm
        have h2 : countByte (body ++ 63 :: c :: t) 63 = 1 + List.count 63 (c :: t) := by
          unfold countByte at *
          rw [List.count_append, hcnt, List.count_cons_self]; omega
        simp only [Bool.true_and, h2]
        simp; omega
    rw [hfalse]
    simp [cut_append body (c :: t) 63 hb]

theorem parse_layout (s body q : Bytes) (fq : Bool) (hs : validScheme s = true) (hl : toLowerAscii s = s)
    (hb : (63 : UInt8) ∉ body) (hc1 : containsCTL body = false) (hc2 : containsCTL q = false) :
    Net.parse (s ++ 58 :: (body ++ (if fq || q != [] then 63 :: q else []))) false =
      parseTail s body q (fq && q == []) := by
  have hsa := validScheme_all s hs
  have hcs : containsCTL s = false :=
    noCTL_of_all s _ hsa.2 (fun c hc => by simp only [Bool.and_eq_true, Bool.not_eq_true'] at hc; exact hc.2)
  have hctl : containsCTL (s ++ 58 :: (body ++ (if fq || q != [] then 63 :: q else []))) = false := by
    rw [containsCTL_append, containsCTL_cons, containsCTL_append, hcs, hc1]
    split
    · rw [containsCTL_cons, hc2]; decide
    · decide
  have hne : s ++ 58 :: (body ++ (if fq || q != [] then 63 :: q else [])) ≠ [42] := by
    intro e
    have := congrArg List.length e
    have hs0 : 0 < s.length := List.length_pos_iff.2 hsa.1
    simp at this; omega
  rw [parse_eq_tail _ s _ hctl hne (getScheme_valid s _ hs), hl]
  exact query_split s body q fq hb

theorem Parse_layout (pre ef f : Bytes) (hp : (35 : UInt8) ∉ pre) (hef : f ≠ [] → ef ≠ []) :
    Net.Parse (pre ++ (if f != [] then 35 :: ef else [])) =
      match Net.parse pre false with
      | none => none
      | some url => if f = [] then some url else setFragment url ef := by
  unfold Net.Parse
  by_cases hf : f = []
  · subst hf
    simp only [bne_self_eq_false, Bool.false_eq_true, if_false, List.append_nil, cut_none pre 35 hp]
    cases Net.parse pre false <;> simp
  · have hf' : (f != []) = true := by simpa using hf
    simp only [hf', if_true, cut_append pre ef 35 hp]
    have : (ef == []) = false := by simpa using hef hf
    cases Net.parse pre false <;> simp [this, hf]

/-! ## the authority -/

/-- the userinfo as `parseAuthority` reads it back -/
def reparsedUser (ui : User) : User :=
  if ui.passwordSet then ⟨ui.username, ui.password, true⟩ else ⟨ui.username, [], false⟩

theorem reparsedUser_str (ui : User) : (reparsedUser ui).str = ui.str := by
  unfold reparsedUser User.str
  split <;> simp_all

theorem escUser_props (s : Bytes) :
    (64 : UInt8) ∉ Net.escape .userPassword s ∧ (58 : UInt8) ∉ Net.escape .userPassword s ∧
    (47 : UInt8) ∉ Net.escape .userPassword s ∧ (63 : UInt8) ∉ Net.escape .userPassword s ∧
    (35 : UInt8) ∉ Net.escape .userPassword s ∧ validUserinfo (Net.escape .userPassword s) = true ∧
    containsCTL (Net.escape .userPassword s) = false := by
  have h := escUser_all s
  refine ⟨not_mem_of_all _ _ _ h (by decide), not_mem_of_all _ _ _ h (by decide), not_mem_of_all _ _ _ h (by decide),
    not_mem_of_all _ _ _ h (by decide), not_mem_of_all _ _ _ h (by decide), ?_, ?_⟩
  · unfold validUserinfo
    rw [List.all_eq_true] at h ⊢
    intro x hx
    have := h x hx
    simp only [Bool.and_eq_true] at this
    have hv := this.2
    simpa [validUserinfo] using hv
  · apply noCTL_of_all _ _ h
    intro c hc
    simp only [Bool.and_eq_true, notDelim, Bool.not_eq_true'] at hc
    exact hc.1.1.1.2

theorem escHost_props (s : Bytes) :
    (64 : UInt8) ∉ Net.escape .host s ∧ (47 : UInt8) ∉ Net.escape .host s ∧ (63 : UInt8) ∉ Net.escape .host s ∧
    (35 : UInt8) ∉ Net.escape .host s ∧ containsCTL (Net.escape .host s) = false := by
  have h := escHost_all s
  refine ⟨not_mem_of_all _ _ _ h (by decide), not_mem_of_all _ _ _ h (by decide), not_mem_of_all _ _ _ h (by decide),
    not_mem_of_all _ _ _ h (by decide), ?_⟩
  apply noCTL_of_all _ _ h
  intro c hc
  simp only [Bool.and_eq_true, notDelim, Bool.not_eq_true'] at hc
  exact hc.1.2

theorem hostStr_props (u : URL) :
    (64 : UInt8) ∉ hostStr u ∧ (47 : UInt8) ∉ hostStr u ∧ (63 : UInt8) ∉ hostStr u ∧
    (35 : UInt8) ∉ hostStr u ∧ containsCTL (hostStr u) = false := by
  unfold hostStr
  split
  · exact escHost_props _
  · simp [containsCTL]

theorem userStr_mem (u : URL) (c : UInt8) (h : c ∈ userStr u) :
    c = 64 ∨ c = 58 ∨ ∃ s, c ∈ Net.escape .userPassword s := by
  unfold userStr at h
  split at h
  · next ui _ =>
    unfold User.str at h
    simp only [List.mem_append, List.mem_singleton] at h
    rcases h with (h | h) | h
    · exact Or.inr (Or.inr ⟨_, h⟩)
    · split at h
      · rcases List.mem_cons.1 h with h | h
        · exact Or.inr (Or.inl h)
        · exact Or.inr (Or.inr ⟨_, h⟩)
      · cases h
    · exact Or.inl h
  · cases h

theorem userStr_all (u : URL) : (userStr u).all notDelim = true := by
  rw [List.all_eq_true]
  intro c hc
  rcases userStr_mem u c hc with e | e | ⟨s, hs⟩
  · subst e; decide
  · subst e; decide
  · have := List.all_eq_true.1 (escUser_all s) c hs
    simp only [Bool.and_eq_true] at this
    exact this.1.1.1

theorem userStr_props (u : URL) :
    (47 : UInt8) ∉ userStr u ∧ (63 : UInt8) ∉ userStr u ∧ (35 : UInt8) ∉ userStr u ∧ containsCTL (userStr u) = false := by
  have h := userStr_all u
  refine ⟨not_mem_of_all _ _ _ h (by decide), not_mem_of_all _ _ _ h (by decide), not_mem_of_all _ _ _ h (by decide), ?_⟩
  apply noCTL_of_all _ _ h
  intro c hc
  simp only [Bool.and_eq_true, notDelim, Bool.not_eq_true'] at hc
  exact hc.2

theorem validUserinfo_append (a b : Bytes) : validUserinfo (a ++ b) = (validUserinfo a && validUserinfo b) := by
  simp [validUserinfo, List.all_append]

theorem parseAuthority_layout (u : URL) (hh : parseHost (hostStr u) = some u.host) :
    parseAuthority (userStr u ++ hostStr u) = some (u.user.map reparsedUser, u.host) := by
  obtain ⟨h64, -⟩ := hostStr_props u
  unfold parseAuthority
  cases hu : u.user with
  | none =>
    simp only [userStr, hu, List.nil_append, lastIndexByte_eq_none _ 64 h64, hh, Option.map_some, Option.map_none]
  | some ui =>
    obtain ⟨a1, a2, -, -, -, a6, -⟩ := escUser_props ui.username
    obtain ⟨b1, b2, -, -, -, b6, -⟩ := escUser_props ui.password
    have e : userStr u ++ hostStr u = ui.str ++ 64 :: hostStr u := by simp [userStr, hu]
    rw [e, lastIndexByte_append _ _ 64 h64]
    simp only [List.take_left', Option.map_some]
    have hd : List.drop (ui.str.length + 1) (ui.str ++ 64 :: hostStr u) = hostStr u := by
      rw [show ui.str ++ 64 :: hostStr u = (ui.str ++ [64]) ++ hostStr u by simp]
      rw [show ui.str.length + 1 = (ui.str ++ [64]).length by simp]
      exact List.drop_left' rfl
    have ht : List.take ui.str.length (ui.str ++ 64 :: hostStr u) = ui.str := List.take_left' rfl
    rw [hd, hh]
    simp only
    unfold reparsedUser
    cases hps : ui.passwordSet with
    | false =>
      have es : ui.str = Net.escape .userPassword ui.username := by simp [User.str, hps]
      rw [es]
      simp [a6, a2, unescape_escape_some _ (Or.inr (Or.inr rfl))]
    | true =>
      have es : ui.str = Net.escape .userPassword ui.username ++ 58 :: Net.escape .userPassword ui.password := by
        simp [User.str, hps]
      rw [es]
      have hv : validUserinfo (Net.escape .userPassword ui.username ++ 58 :: Net.escape .userPassword ui.password) = true := by
        rw [validUserinfo_append, a6]
        simp only [Bool.true_and]
        rw [show (58 : UInt8) :: Net.escape .userPassword ui.password = [58] ++ Net.escape .userPassword ui.password by rfl,
          validUserinfo_append, b6]
        decide
      simp [hv, cut_append _ _ 58 a2, unescape_escape_some _ (Or.inr (Or.inr rfl))]

/-! ## what `Parse` makes of an `href` -/

def OpaqOK (o : Bytes) : Prop :=
  hasPrefix o [47] = false ∧ (63 : UInt8) ∉ o ∧ (35 : UInt8) ∉ o ∧ containsCTL o = false

/-- the layout conditions under which the `href` of `u` can be read back -/
structure Lay (u : URL) : Prop where
  scheme : validScheme u.scheme = true
  lower : toLowerAscii u.scheme = u.scheme
  opaq : u.opaq ≠ [] → OpaqOK u.opaq
  path : u.path = [] ∨ (hasPrefix u.path [47] = true ∧ hasPrefix u.path [47, 47] = false)
  rawPath : u.rawPath = [] ∨ hasPrefix u.rawPath [47] = true
  query : escapeQuery u.rawQuery = u.rawQuery
  host : parseHost (hostStr u) = some u.host

def reparsedRawPath (u : URL) : Bytes :=
  if u.escapedPath == Net.escape .path u.path then [] else u.escapedPath

def reparsedRawFragment (u : URL) : Bytes :=
  if u.fragment == [] then []
  else if u.escapedFragment == Net.escape .fragment u.fragment then [] else u.escapedFragment

/-- the URL `Parse` builds from `u.str` -/
def reparse (u : URL) : URL :=
  let base : URL := { scheme := u.scheme, rawQuery := u.rawQuery, forceQuery := u.forceQuery && u.rawQuery == [],
                      fragment := u.fragment, rawFragment := reparsedRawFragment u }
  if u.opaq != [] then { base with opaq := u.opaq }
  else if u.host == [] && u.path == [] && u.user.isNone then base
  else if authless u then { base with omitHost := true, path := u.path, rawPath := reparsedRawPath u }
  else { base with user := u.user.map reparsedUser, host := u.host, path := u.path, rawPath := reparsedRawPath u }

theorem Lay.star {u : URL} (h : Lay u) : u.path ≠ [42] := by
  intro e
  rcases h.path with h0 | ⟨h0, _⟩
  · rw [e] at h0; cases h0
  · rw [e] at h0; revert h0; decide

theorem qsafe_props (q : Bytes) (h : escapeQuery q = q) : (35 : UInt8) ∉ q ∧ containsCTL q = false := by
  have ha : q.all qsafe = true := by rw [← h]; exact escapeQuery_all_qsafe q
  refine ⟨not_mem_of_all _ _ _ ha (by decide), ?_⟩
  unfold containsCTL
  rw [List.any_eq_false]
  intro x hx
  have hq := List.all_eq_true.1 ha x hx
  have := byte_all (fun x => !qsafe x || !(x < 32 || x == 127)) (by decide +kernel) x
  simp only [Bool.or_eq_true, Bool.not_eq_true'] at this
  rcases this with h0 | h0
  · rw [hq] at h0; cases h0
  · simpa using h0

theorem setPath_escaped (u0 u : URL) (hstar : u.path ≠ [42]) :
    setPath u0 u.escapedPath = some { u0 with path := u.path, rawPath := reparsedRawPath u } := by
  unfold setPath
  rw [escapedPath_unescape u hstar]
  rfl

def reparsedRawFragment' (u : URL) : Bytes :=
  if u.escapedFragment == Net.escape .fragment u.fragment then [] else u.escapedFragment

theorem setFragment_escaped (u0 u : URL) :
    setFragment u0 u.escapedFragment =
      some { u0 with fragment := u.fragment, rawFragment := reparsedRawFragment' u } := by
  unfold setFragment
  rw [escapedFragment_unescape u]
  rfl

theorem bodyStr_props (u : URL) (h : Lay u) :
    (63 : UInt8) ∉ bodyStr u ∧ (35 : UInt8) ∉ bodyStr u ∧ containsCTL (bodyStr u) = false := by
  have hep := escapedPath_all u h.star
  have e1 : (63 : UInt8) ∉ u.escapedPath := not_mem_of_all _ _ _ hep (by decide)
  have e2 : (35 : UInt8) ∉ u.escapedPath := not_mem_of_all _ _ _ hep (by decide)
  have e3 : containsCTL u.escapedPath = false := noCTL_of_all _ _ hep (fun c hc => by
    simp only [Bool.and_eq_true, Bool.not_eq_true'] at hc; exact hc.2)
  unfold bodyStr
  split
  · next ho =>
    have := h.opaq (by simpa using ho)
    exact ⟨this.2.1, this.2.2.1, this.2.2.2⟩
  · split
    · exact ⟨e1, e2, e3⟩
    · obtain ⟨u1, u2, u3, u4⟩ := userStr_props u
      obtain ⟨-, h1, h2, h3, h4⟩ := hostStr_props u
      simp only [List.mem_cons, List.mem_append, not_or, containsCTL_cons, containsCTL_append]
      refine ⟨⟨by decide, by decide, ⟨u2, h2⟩, e1⟩, ⟨by decide, by decide, ⟨u3, h3⟩, e2⟩, ?_⟩
      rw [u4, h4, e3]; decide

theorem hasPrefix_nil_false (c : UInt8) : hasPrefix [] [c] = false := by simp [hasPrefix, List.isPrefixOf]

theorem parseTail_body (u : URL) (h : Lay u) (fq : Bool) :
    parseTail u.scheme (bodyStr u) u.rawQuery fq =
      some { reparse u with forceQuery := fq, fragment := [], rawFragment := [] } := by
  have hsne : (u.scheme != []) = true := by have := (validScheme_all _ h.scheme).1; simpa using this
  unfold bodyStr reparse
  by_cases ho : u.opaq = []
  · have ho' : (u.opaq != []) = false := by simp [ho]
    simp only [ho', Bool.false_eq_true, if_false]
    by_cases hE : (u.host == [] && u.path == [] && u.user.isNone) = true
    · -- nothing after the scheme
      have hE2 := hE
      simp only [Bool.and_eq_true, beq_iff_eq] at hE2
      have hal : authless u = true := by unfold authless; simp [hE2.1.1, hE2.1.2, hE2.2]
      have hp : u.path = [] := hE2.1.2
      have hep : u.escapedPath = [] := (escapedPath_nil u h.star).2 hp
      simp only [hal, if_true, hE, hep]
      unfold parseTail
      simp [hasPrefix_nil_false, hsne]
    · have hE' : (u.host == [] && u.path == [] && u.user.isNone) = false := Bool.eq_false_iff.2 hE
      simp only [hE', Bool.false_eq_true, if_false]
      by_cases hal : authless u = true
      · -- path only
        simp only [hal, if_true]
        have hp : u.path ≠ [] := by
          intro hp
          unfold authless at hal
          simp only [Bool.or_eq_true, Bool.and_eq_true, beq_iff_eq] at hal
          rcases hal with ⟨⟨_, h2⟩, h3⟩ | ⟨⟨h1, _⟩, h3⟩
          · rw [h2, hp, h3] at hE'; cases hE'
          · rw [h1, hp, h3] at hE'; cases hE'
        obtain ⟨hp1, hp2⟩ := h.path.resolve_left hp
        have e1 := escapedPath_head u h.star hp1 h.rawPath
        have e2 := escapedPath_no_dslash u h.star hp2
        unfold parseTail
        simp only [e1, e2, Bool.not_true, Bool.false_and, Bool.false_eq_true, if_false, Bool.and_false, hsne,
          Bool.and_true]
        rw [setPath_escaped _ u h.star]
      · -- with an authority
        have hal' : authless u = false := by simpa using hal
        simp only [hal', Bool.false_eq_true, if_false]
        obtain ⟨u1, -, -, -⟩ := userStr_props u
        obtain ⟨-, h1, -, -, -⟩ := hostStr_props u
        have hnm : (47 : UInt8) ∉ userStr u ++ hostStr u := by
          simp only [List.mem_append, not_or]; exact ⟨u1, h1⟩
        unfold parseTail
        have p1 : hasPrefix (47 :: 47 :: (userStr u ++ hostStr u ++ u.escapedPath)) [47] = true :=
          (hasPrefix_iff _ _).2 ⟨_, rfl⟩
        have p2 : hasPrefix (47 :: 47 :: (userStr u ++ hostStr u ++ u.escapedPath)) [47, 47] = true :=
          (hasPrefix_iff _ _).2 ⟨_, rfl⟩
        simp only [p1, p2, Bool.not_true, Bool.false_and, Bool.false_eq_true, if_false, hsne, Bool.true_or,
          Bool.and_true, if_true, List.drop_succ_cons, List.drop_zero]
        have hpa := parseAuthority_layout u h.host
        generalize userStr u ++ hostStr u = a at *
        by_cases hp : u.path = []
        · have hep : u.escapedPath = [] := (escapedPath_nil u h.star).2 hp
          have hrp : reparsedRawPath u = [] := by unfold reparsedRawPath; rw [hep, hp]; rfl
          rw [hep, List.append_nil, indexByte_eq_none _ 47 hnm]
          simp only [hpa]
          unfold setPath
          simp [Net.unescape, unescapeOk, unescapeRaw, hp, hrp, Net.escape]
        · obtain ⟨hp1, _⟩ := h.path.resolve_left hp
          obtain ⟨t, et⟩ := (hasPrefix_iff _ _).1 (escapedPath_head u h.star hp1 h.rawPath)
          have hidx : indexByte (a ++ u.escapedPath) 47 = some a.length := by
            rw [et]; exact indexByte_append a t 47 hnm
          rw [hidx]
          simp only [List.take_left', List.drop_left', hpa]
          rw [setPath_escaped _ u h.star]
  · have ho' : (u.opaq != []) = true := by simpa using ho
    have hok := h.opaq ho
    simp only [ho', if_true]
    unfold parseTail
    simp [hok.1, hsne]

theorem reparse_fields (u : URL) :
    (reparse u).forceQuery = (u.forceQuery && u.rawQuery == []) ∧ (reparse u).fragment = u.fragment ∧
    (reparse u).rawFragment = reparsedRawFragment u ∧ (reparse u).scheme = u.scheme ∧
    (reparse u).rawQuery = u.rawQuery := by
  unfold reparse
  simp only
  split
  · exact ⟨rfl, rfl, rfl, rfl, rfl⟩
  · split
    · exact ⟨rfl, rfl, rfl, rfl, rfl⟩
    · split <;> exact ⟨rfl, rfl, rfl, rfl, rfl⟩

theorem unescapeRaw_nil_iff (m : Mode) (r : Bytes) (h : unescapeRaw m r = []) : r = [] := by
  cases r with
  | nil => rfl
  | cons c t => exact absurd h (unescapeRaw_ne_nil m _ (List.cons_ne_nil c t))

theorem Parse_str (u : URL) (h : Lay u) : Net.Parse u.str = some (reparse u) := by
  have hstar := h.star
  have hslash : u.path = [] ∨ hasPrefix u.escapedPath [47] = true := by
    rcases h.path with hp | ⟨hp, _⟩
    · exact Or.inl hp
    · exact Or.inr (escapedPath_head u hstar hp h.rawPath)
  rw [str_eq u (validScheme_all _ h.scheme).1 hstar hslash]
  obtain ⟨b1, b2, b3⟩ := bodyStr_props u h
  obtain ⟨q1, q2⟩ := qsafe_props u.rawQuery h.query
  have hsa := (validScheme_all _ h.scheme).2
  have s1 : (35 : UInt8) ∉ u.scheme := not_mem_of_all _ _ _ hsa (by decide)
  have hpre : (35 : UInt8) ∉ u.scheme ++ 58 :: (bodyStr u ++ qStr u) := by
    unfold qStr
    simp only [List.mem_append, List.mem_cons, not_or]
    refine ⟨s1, by decide, b2, ?_⟩
    split
    · simp only [List.mem_cons, not_or]; exact ⟨by decide, q1⟩
    · simp
  have hef : u.fragment ≠ [] → u.escapedFragment ≠ [] := by
    intro hf he
    have := unescape_some' _ _ _ (escapedFragment_unescape u)
    rw [he] at this
    exact hf (by rw [this]; simp [unescapeRaw])
  have := Parse_layout (u.scheme ++ 58 :: (bodyStr u ++ qStr u)) u.escapedFragment u.fragment hpre hef
  unfold fStr
  rw [this]
  have hp := parse_layout u.scheme (bodyStr u) u.rawQuery u.forceQuery h.scheme h.lower b1 b3 q2
  unfold qStr
  rw [hp, parseTail_body u h]
  obtain ⟨f1, f2, f3, f4, f5⟩ := reparse_fields u
  simp only
  by_cases hf : u.fragment = []
  · simp only [hf, if_true, Option.some.injEq]
    have hrf : reparsedRawFragment u = [] := by unfold reparsedRawFragment; simp [hf]
    rw [hf] at f2
    rw [hrf] at f3
    cases hr : reparse u
    simp only [hr] at f1 f2 f3
    simp only [URL.mk.injEq, true_and]
    exact ⟨f1.symm, f2.symm, f3.symm⟩
  · simp only [hf, if_false]
    rw [setFragment_escaped]
    have hrf : reparsedRawFragment u = reparsedRawFragment' u := by
      unfold reparsedRawFragment reparsedRawFragment'
      have : (u.fragment == []) = false := by simpa using hf
      simp [this]
    rw [hrf] at f3
    cases hr : reparse u
    simp only [hr] at f1 f2 f3
    simp only [Option.some.injEq, URL.mk.injEq, true_and]
    exact ⟨f1.symm, f2.symm, f3.symm⟩

/-! ## the re-parsed URL prints the same `href` -/

theorem escapedPath_of_nil (u : URL) (hp : u.path = []) (hr : u.rawPath = []) : u.escapedPath = [] := by
  unfold URL.escapedPath
  simp [hp, hr, Net.escape]

theorem reparse_str (u : URL) (h : Lay u) : (reparse u).str = u.str := by
  have hstar := h.star
  have hsne := (validScheme_all _ h.scheme).1
  have hslash : u.path = [] ∨ hasPrefix u.escapedPath [47] = true := by
    rcases h.path with hp | ⟨hp, _⟩
    · exact Or.inl hp
    · exact Or.inr (escapedPath_head u hstar hp h.rawPath)
  obtain ⟨f1, f2, f3, f4, f5⟩ := reparse_fields u
  -- the path of the re-parsed URL
  have hpath : ((reparse u).path = [] ∧ (reparse u).rawPath = []) ∨
      ((reparse u).path = u.path ∧ (reparse u).rawPath = reparsedRawPath u) := by
    unfold reparse
    simp only
    split
    · exact Or.inl ⟨rfl, rfl⟩
    · split
      · exact Or.inl ⟨rfl, rfl⟩
      · split <;> exact Or.inr ⟨rfl, rfl⟩
  have hstar' : (reparse u).path ≠ [42] := by
    rcases hpath with ⟨hp, _⟩ | ⟨hp, _⟩
    · rw [hp]; simp
    · rw [hp]; exact hstar
  have hep : (reparse u).path = [] ∨ (reparse u).escapedPath = u.escapedPath := by
    rcases hpath with ⟨hp, _⟩ | ⟨hp, hr⟩
    · exact Or.inl hp
    · exact Or.inr (escapedPath_stable u _ hstar hp hr)
  have hslash' : (reparse u).path = [] ∨ hasPrefix (reparse u).escapedPath [47] = true := by
    rcases hpath with ⟨hp, _⟩ | ⟨hp, hr⟩
    · exact Or.inl hp
    · rw [escapedPath_stable u _ hstar hp hr, hp]; exact hslash
  rw [str_eq u hsne hstar hslash, str_eq (reparse u) (by rw [f4]; exact hsne) hstar' hslash', f4]
  have hq : qStr (reparse u) = qStr u := by
    unfold qStr
    rw [f1, f5]
    cases u.forceQuery <;> cases hq : u.rawQuery <;> simp
  have hf : fStr (reparse u) = fStr u := by
    unfold fStr
    rw [f2]
    by_cases hfr : u.fragment = []
    · simp [hfr]
    · have : (u.fragment != []) = true := by simpa using hfr
      simp only [this, if_true]
      congr 1
      apply escapedFragment_stable u _ f2
      rw [f3]
      unfold reparsedRawFragment
      have : (u.fragment == []) = false := by simpa using hfr
      simp [this]
  have hb : bodyStr (reparse u) = bodyStr u := by
    by_cases ho : u.opaq = []
    · have ho' : (u.opaq != []) = false := by simp [ho]
      by_cases hE : (u.host == [] && u.path == [] && u.user.isNone) = true
      · have hE2 := hE
        simp only [Bool.and_eq_true, beq_iff_eq] at hE2
        have hal : authless u = true := by unfold authless; simp [hE2.1.1, hE2.1.2, hE2.2]
        have hr : reparse u = { scheme := u.scheme, rawQuery := u.rawQuery, forceQuery := u.forceQuery && u.rawQuery == [], fragment := u.fragment, rawFragment := reparsedRawFragment u } := by
          unfold reparse; simp only [ho', hE, Bool.false_eq_true, if_false, if_true]
        have : bodyStr u = [] := by
          unfold bodyStr; simp only [ho', hal, Bool.false_eq_true, if_false, if_true]
          exact (escapedPath_nil u hstar).2 hE2.1.2
        rw [this, hr]
        unfold bodyStr authless
        simp [escapedPath_of_nil]
      · have hE' : (u.host == [] && u.path == [] && u.user.isNone) = false := Bool.eq_false_iff.2 hE
        by_cases hal : authless u = true
        · have hr : reparse u = { scheme := u.scheme, rawQuery := u.rawQuery, forceQuery := u.forceQuery && u.rawQuery == [], fragment := u.fragment, rawFragment := reparsedRawFragment u, omitHost := true, path := u.path, rawPath := reparsedRawPath u } := by
            unfold reparse; simp only [ho', hE', hal, Bool.false_eq_true, if_false, if_true]
          have hepr : (reparse u).escapedPath = u.escapedPath :=
            escapedPath_stable u _ hstar (by rw [hr]) (by rw [hr]; rfl)
          have : bodyStr u = u.escapedPath := by
            unfold bodyStr; simp only [ho', hal, Bool.false_eq_true, if_false, if_true]
          rw [this, ← hepr, hr]
          unfold bodyStr authless
          simp
        · have hal' : authless u = false := Bool.eq_false_iff.2 hal
          have hr : reparse u = { scheme := u.scheme, rawQuery := u.rawQuery, forceQuery := u.forceQuery && u.rawQuery == [], fragment := u.fragment, rawFragment := reparsedRawFragment u, user := u.user.map reparsedUser, host := u.host, path := u.path, rawPath := reparsedRawPath u } := by
            unfold reparse; simp only [ho', hE', hal', Bool.false_eq_true, if_false]
          have hepr : (reparse u).escapedPath = u.escapedPath :=
            escapedPath_stable u _ hstar (by rw [hr]) (by rw [hr]; rfl)
          have hbu : bodyStr u = 47 :: 47 :: (userStr u ++ hostStr u ++ u.escapedPath) := by
            unfold bodyStr; simp only [ho', hal', Bool.false_eq_true, if_false]
          have hal2 : authless (reparse u) = false := by
            rw [hr]
            unfold authless at hal' ⊢
            simp only [Bool.false_and, Bool.false_or]
            rw [Bool.or_eq_false_iff] at hal'
            have := hal'.2
            cases hu : u.user <;> simp_all
          have hus : userStr (reparse u) = userStr u := by
            rw [hr]; unfold userStr
            cases hu : u.user with
            | none => simp
            | some ui => simp [reparsedUser_str]
          have hhs : hostStr (reparse u) = hostStr u := by rw [hr]; rfl
          have hop : ((reparse u).opaq != []) = false := by rw [hr]; rfl
          rw [hbu, ← hepr, ← hus, ← hhs]
          conv => lhs; unfold bodyStr
          simp only [hop, hal2, Bool.false_eq_true, if_false]
    · have ho' : (u.opaq != []) = true := by simpa using ho
      have hr : (reparse u).opaq = u.opaq := by unfold reparse; simp only [ho', if_true]
      unfold bodyStr
      simp [hr, ho']
  rw [hq, hf, hb]

/-! ## re-normalising the re-parsed URL -/

/-- the normal-form conditions a reachable URL satisfies -/
structure NormOK (u : URL) : Prop where
  opaqNet : u.opaq ≠ [] → isSpecialNetProtocol u.scheme = false
  path : cleanPath u.path u.scheme = u.path
  colons : validHostColons u = true
  port : u.port = [] ∨ ∃ n, atoi u.port = some n ∧ isDefaultURLPort u.scheme n = false
  hostFix : fixHost u.scheme u.host = .ok u.host ∨ fixHost u.scheme u.host = .error .noclaim

theorem specialNet_special (s : Bytes) (h : isSpecialNetProtocol s = true) : isSpecialProtocol s = true := by
  unfold isSpecialNetProtocol at h
  unfold isSpecialProtocol
  simp only [Generated.specialNetProtocols, Generated.specialProtocols, List.any_cons, List.any_nil,
    Bool.or_false, Bool.or_eq_true] at h ⊢
  rcases h with h | h | h | h | h <;> simp [h]

theorem str_opaque_congr (a b : URL) (ho : a.opaq ≠ []) (h1 : a.scheme = b.scheme) (h2 : a.opaq = b.opaq)
    (h3 : a.forceQuery = b.forceQuery) (h4 : a.rawQuery = b.rawQuery) (h5 : a.fragment = b.fragment)
    (h6 : a.rawFragment = b.rawFragment) : a.str = b.str := by
  have ho1 : (a.opaq != []) = true := by simpa using ho
  have ho2 : (b.opaq != []) = true := by rw [← h2]; exact ho1
  have hf : a.escapedFragment = b.escapedFragment := by unfold URL.escapedFragment; rw [h5, h6]
  unfold URL.str
  simp only [ho2, if_true, h1, h2, h3, h4, h5, hf]

theorem port_of_host_nil (u : URL) (h : u.host = []) : u.port = [] := by rw [port_eq, h]; decide

theorem validHostColons_of_host_nil (u : URL) (h : u.host = []) : validHostColons u = true := by
  unfold validHostColons; rw [hostWithoutPort_eq, h]; decide

theorem cleanPath_nil_special (s : Bytes) (h : isSpecialProtocol s = true) : cleanPath [] s = [47] := by
  unfold cleanPath
  simp [h, hasPrefix, hasSuffix, pathClean, cleanLoop]

theorem fixHost_nil (s : Bytes) : fixHost s [] = .ok [] := by
  unfold fixHost
  have h1 : trimSuffix [] [58] = [] := by decide
  have h2 : hasPrefix ([] : Bytes) [91] = false := by decide
  have h3 : splitHostPort [] = ([], []) := by decide
  have h4 : Idna.toASCII [] = .ok [] := by rfl
  simp only [h1, h2, h3, h4, Bool.false_eq_true, if_false]
  split <;> simp

theorem normPort_of_port (u : URL)
    (h : u.port = [] ∨ ∃ n, atoi u.port = some n ∧ isDefaultURLPort u.scheme n = false) : normPort u = u := by
  unfold normPort
  rcases h with h | ⟨n, h1, h2⟩
  · simp [h]
  · split
    · simp [h1, h2]
    · rfl

theorem normalize_reparse (u : URL) (hL : Lay u) (hN : NormOK u) :
    (∃ u'', normalizeURL (reparse u) = .ok u'' ∧ u''.str = (reparse u).str) ∨
    normalizeURL (reparse u) = .error .noclaim := by
  obtain ⟨f1, f2, f3, f4, f5⟩ := reparse_fields u
  by_cases ho : u.opaq = []
  · -- not opaque: the re-parsed URL is already normal
    have ho' : (u.opaq != []) = false := by simp [ho]
    have hhp : (reparse u).host = u.host ∧ (reparse u).path = u.path := by
      unfold reparse
      simp only [ho', Bool.false_eq_true, if_false]
      split
      · next hE =>
        simp only [Bool.and_eq_true, beq_iff_eq] at hE
        exact ⟨hE.1.1.symm, hE.1.2.symm⟩
      · split
        · next hE hal =>
          refine ⟨?_, rfl⟩
          unfold authless at hal
          simp only [Bool.or_eq_true, Bool.and_eq_true, beq_iff_eq] at hal
          rcases hal with ⟨⟨_, h2⟩, _⟩ | ⟨⟨h1, _⟩, _⟩
          · exact h2.symm
          · exact h1.symm
        · exact ⟨rfl, rfl⟩
    obtain ⟨hh, hp⟩ := hhp
    have c1 : (isSpecialNetProtocol (reparse u).scheme && (reparse u).host == [] && (reparse u).path == []) = false := by
      rw [f4, hh, hp]
      cases hsn : isSpecialNetProtocol u.scheme with
      | false => rfl
      | true =>
        have hsp := specialNet_special _ hsn
        have : u.path ≠ [] := by
          intro e
          have := hN.path
          rw [e, cleanPath_nil_special _ hsp] at this
          cases this
        simp [this]
    have c2 : validHostColons (reparse u) = true := by
      have := hN.colons
      unfold validHostColons at this ⊢
      rw [hostWithoutPort_eq] at this ⊢
      rw [hh]; exact this
    have c3 : normPort (reparse u) = reparse u := by
      apply normPort_of_port
      rw [port_eq, hh, f4]; exact hN.port
    rw [normalizeURL_eq, c1, c2, c3, fixURL_eq, f4, hh]
    simp only [Bool.false_eq_true, if_false, Bool.not_true]
    rcases hN.hostFix with hf | hf
    · left
      rw [hf]
      refine ⟨_, rfl, ?_⟩
      have e1 : ∀ X : URL, X = reparse u → (fixRawQuery X).str = (reparse u).str := by
        intro X e; rw [e, fixRawQuery_of_fixed _ (by rw [f5]; exact hL.query)]
      apply e1
      rw [hp, hN.path]
      cases hr : reparse u
      simp only [hr] at f4 hh hp
      simp [f4, hh, hp]
    · right; rw [hf]
  · -- opaque
    have ho' : (u.opaq != []) = true := by simpa using ho
    have hr : reparse u = { scheme := u.scheme, rawQuery := u.rawQuery, forceQuery := u.forceQuery && u.rawQuery == [], fragment := u.fragment, rawFragment := reparsedRawFragment u, opaq := u.opaq } := by
      unfold reparse; simp only [ho', if_true]
    have hsn := hN.opaqNet ho
    left
    rw [normalizeURL_eq, hr]
    have c2 : validHostColons { scheme := u.scheme, rawQuery := u.rawQuery, forceQuery := u.forceQuery && u.rawQuery == [], fragment := u.fragment, rawFragment := reparsedRawFragment u, opaq := u.opaq } = true := by
      exact validHostColons_of_host_nil _ rfl
    have c3 : normPort { scheme := u.scheme, rawQuery := u.rawQuery, forceQuery := u.forceQuery && u.rawQuery == [], fragment := u.fragment, rawFragment := reparsedRawFragment u, opaq := u.opaq } = { scheme := u.scheme, rawQuery := u.rawQuery, forceQuery := u.forceQuery && u.rawQuery == [], fragment := u.fragment, rawFragment := reparsedRawFragment u, opaq := u.opaq } := by
      apply normPort_of_port; left; exact port_of_host_nil _ rfl
    simp only [hsn, Bool.false_and, Bool.false_eq_true, if_false, c2, Bool.not_true, c3]
    rw [fixURL_eq]
    simp only [fixHost_nil]
    refine ⟨_, rfl, ?_⟩
    have hfq := fixRawQuery_host
    apply str_opaque_congr
    · unfold fixRawQuery; split <;> exact ho
    · exact (fixRawQuery_host _).2
    · unfold fixRawQuery; split <;> rfl
    · unfold fixRawQuery; split <;> rfl
    · rw [fixRawQuery_of_fixed _ (by exact hL.query)]
    · unfold fixRawQuery; split <;> rfl
    · unfold fixRawQuery; split <;> rfl

/-! ## the statement for one URL value -/

/-- what `ReparseStable` says about one state -/
def ReparseOK (st : St) : Prop :=
  match construct (observe st).2.href none with
  | .ok u' => (observe { url := u' }).2.href = (observe st).2.href
  | .error .noclaim => True
  | .error _ => False

theorem reparse_url (u : URL) (hL : Lay u) (hN : NormOK u) :
    match parseURL u.str true with
    | .ok u' => u'.str = u.str
    | .error .noclaim => True
    | .error _ => False := by
  have habs : (reparse u).isAbs = true := by
    unfold URL.isAbs
    rw [(reparse_fields u).2.2.2.1]
    simpa using (validScheme_all _ hL.scheme).1
  unfold parseURL
  rw [Parse_str u hL]
  simp only [habs, Bool.not_true, Bool.and_false, Bool.false_eq_true, if_false]
  rcases normalize_reparse u hL hN with ⟨u'', h1, h2⟩ | h
  · rw [h1]; simp only; rw [h2, reparse_str u hL]
  · rw [h]; trivial

theorem reparseOK_of (st : St) (hL : Lay st.sync.url) (hN : NormOK st.sync.url) : ReparseOK st := by
  have := reparse_url st.sync.url hL hN
  unfold ReparseOK
  have e1 : (observe st).2.href = st.sync.url.str := rfl
  have e2 : ∀ h, construct h none = parseURL h true := fun _ => rfl
  rw [e1, e2]
  split
  · next u' hu =>
    rw [hu] at this
    exact this
  · trivial
  · next e hne hu =>
    rw [hu] at this
    cases e <;> first | exact this | exact absurd rfl hne

/-! ## the former counterexample: `u.protocol = "/x"` on a non-special URL

Before the repair of the `protocol` setter (the parsed scheme must equal the assigned one) the state reached by
`new URL("foo://h/p")` followed by `u.protocol = "/x"` had `href = "/x://h/p"`, which `new URL` rejects.  With the
repaired setter the assignment is ignored. -/

/-- `new URL("foo://h/p")` -/
def cexUrl0 : URL := { scheme := [102, 111, 111], host := [104], path := [47, 112] }

def isOkUrl (r : Except Err URL) (u : URL) : Bool :=
  match r with
  | .ok v => decide (v = u)
  | .error _ => false

theorem of_isOkUrl {r : Except Err URL} {u : URL} (h : isOkUrl r u = true) : r = .ok u := by
  cases r with
  | error e => cases h
  | ok v => simp only [isOkUrl, decide_eq_true_eq] at h; rw [h]

def isOkSt (r : Except Err St) (u : URL) : Bool :=
  match r with
  | .ok v => decide (v.url = u) && v.sp.isNone
  | .error _ => false

theorem of_isOkSt {r : Except Err St} {u : URL} (h : isOkSt r u = true) : r = .ok { url := u } := by
  cases r with
  | error e => cases h
  | ok v =>
    simp only [isOkSt, Bool.and_eq_true, decide_eq_true_eq, Option.isNone_iff_eq_none] at h
    cases v
    simp_all

theorem cex_ctor : construct [102, 111, 111, 58, 47, 47, 104, 47, 112] none = .ok cexUrl0 :=
  of_isOkUrl (by decide +kernel)

/-- the assignment that used to break `href` is now ignored -/
theorem cex_step_ignored : step { url := cexUrl0 } (.set .protocol [47, 120]) = .ok { url := cexUrl0 } :=
  of_isOkSt (by decide +kernel)

/-- **partial result (layout)**: a state whose synchronised URL satisfies the layout conditions `Lay` and the
normal-form conditions `NormOK` has an `href` that parses again to the same `href` -/
theorem reparseStable_partial_layout (st : St) (hL : Lay st.sync.url) (hN : NormOK st.sync.url) : ReparseOK st :=
  reparseOK_of st hL hN

section PathIdem
open GN.Url.Rfc

/-! ## `cleanPath` is idempotent, for every input -/

/-- the stack `path.Clean` ends with: empty segments are skipped -/
def cleanStack (r : List Bytes) (st : List Bytes) : List Bytes := (r.filter (· != [])).foldl normStep st

theorem cleanStack_good (r : List Bytes) (hr : ∀ s ∈ r, (47 : UInt8) ∉ s) {st : List Bytes} (hg : Good st) :
    Good (cleanStack r st) := by
  unfold cleanStack
  apply Good.foldl _ hg
  intro s hs
  rw [List.mem_filter] at hs
  exact ⟨by simpa using hs.2, hr s hs.1⟩

theorem clean_rend_any : ∀ (r : List Bytes), (∀ s ∈ r, (47 : UInt8) ∉ s) → ∀ {st : List Bytes}, Good st →
    ∀ fuel, (rend r).length ≤ fuel → cleanLoop true fuel (rend r) (cout st) 1 = cout (cleanStack r st) := by
  intro r
  induction r with
  | nil => intro _ st _ fuel _; simp [cleanLoop_nil, cleanStack]
  | cons s r ih =>
    intro hr st hg fuel hf
    have hs := hr s (by simp)
    have hr' : ∀ t ∈ r, (47 : UInt8) ∉ t := fun t ht => hr t (List.mem_cons_of_mem _ ht)
    simp only [rend_cons, List.length_cons, List.length_append] at hf
    by_cases h0 : s = []
    · subst h0
      obtain ⟨f, rfl⟩ : ∃ f, fuel = f + 1 := ⟨fuel - 1, by omega⟩
      simp only [rend_cons, List.nil_append]
      rw [clean_slash, ih hr' hg f (by simp at hf; omega)]
      simp [cleanStack]
    have : 0 < s.length := List.length_pos_iff.2 h0
    obtain ⟨f, rfl⟩ : ∃ f, fuel = f + 2 := ⟨fuel - 2, by omega⟩
    have hcs : cleanStack (s :: r) st = cleanStack r (normStep st s) := by
      unfold cleanStack
      have : (s != []) = true := by simpa using h0
      simp [this]
    rw [hcs, rend_cons]
    by_cases h1 : s = [46]
    · subst h1
      rw [clean_dot f, normStep_dot]
      exact ih hr' hg f (by simp at hf; omega)
    by_cases h2 : s = [46, 46]
    · subst h2
      rw [clean_dotdot f _ hg.inner, normStep_dotdot]
      exact ih hr' hg.dropLast f (by simp at hf; omega)
    · rw [clean_seg f h0 hs h1 h2 _ hg.inner, normStep_other st h1 h2]
      have hg' := hg.step h0 hs
      rw [normStep_other st h1 h2] at hg'
      exact ih hr' hg' f (by omega)

theorem rooted_segs : ∀ y : Bytes, ∃ s r, (47 : UInt8) ∉ s ∧ (∀ t ∈ r, (47 : UInt8) ∉ t) ∧ y = s ++ rend r := by
  intro y
  induction y with
  | nil => exact ⟨[], [], by simp, by simp, rfl⟩
  | cons c y ih =>
    obtain ⟨s, r, hs, hr, e⟩ := ih
    by_cases hc : c = 47
    · subst hc
      refine ⟨[], s :: r, by simp, ?_, by rw [e]; rfl⟩
      intro t ht
      rcases List.mem_cons.1 ht with e' | h'
      · subst e'; exact hs
      · exact hr t h'
    · refine ⟨c :: s, r, ?_, hr, by rw [e]; rfl⟩
      intro hm
      rcases List.mem_cons.1 hm with e' | h'
      · exact hc e'.symm
      · exact hs h'

/-- `path.Clean` of any rooted path is the rendering of a stack of proper segments -/
theorem pathClean_rooted (y : Bytes) : ∃ st, Good st ∧ pathClean (47 :: y) = cout st := by
  obtain ⟨s, r, hs, hr, e⟩ := rooted_segs y
  have hall : ∀ t ∈ s :: r, (47 : UInt8) ∉ t := by
    intro t ht
    rcases List.mem_cons.1 ht with e' | h'
    · subst e'; exact hs
    · exact hr t h'
  refine ⟨cleanStack (s :: r) [], cleanStack_good _ hall good_nil, ?_⟩
  have h := clean_rend_any (s :: r) hall good_nil ((47 :: y).length + 1 + 1) (by rw [e]; simp)
  rw [cout_nil, rend_cons, ← e, clean_slash] at h
  simp only [List.length_cons] at h
  unfold pathClean
  simp only [List.head?_cons, List.drop_one, List.tail_cons, List.length_cons]
  rw [h]
  simp [cout_ne_nil]

/-- the paths `cleanPath` produces -/
def CleanForm (p : Bytes) : Prop :=
  ∃ init l, Good init ∧ (l = [] ∨ Good [l]) ∧ p = rend (init ++ [l])

theorem cleanForm_fixed (p proto : Bytes) (h : CleanForm p) : cleanPath p proto = p := by
  obtain ⟨init, l, hi, hl, e⟩ := h
  have hl47 : (47 : UInt8) ∉ l := by
    rcases hl with h | h
    · subst h; simp
    · exact (h l (by simp)).2.1
  have := cleanPath_render hi.inner hl47 proto
  rw [render_eq_rend (by simp)] at this
  rw [e, this, foldl_good hi]
  unfold fin
  rcases hl with h | h
  · subst h; simp
  · have hh := h l (by simp)
    simp [hh.1, hh.2.2.1, hh.2.2.2]

theorem cleanForm_shape (p : Bytes) (h : CleanForm p) :
    hasPrefix p [47] = true ∧ hasPrefix p [47, 47] = false := by
  obtain ⟨init, l, hi, hl, e⟩ := h
  subst e
  cases init with
  | nil =>
    simp only [List.nil_append, rend_cons, rend_nil, List.append_nil]
    refine ⟨(hasPrefix_iff _ _).2 ⟨l, rfl⟩, ?_⟩
    cases hp : hasPrefix (47 :: l) [47, 47] with
    | false => rfl
    | true =>
      obtain ⟨t, et⟩ := (hasPrefix_iff _ _).1 hp
      rcases hl with h | h
      · subst h; simp at et
      · have := (h l (by simp)).2.1
        simp only [List.cons_append, List.nil_append, List.cons.injEq, true_and] at et
        rw [et] at this; simp at this
  | cons s init =>
    simp only [List.cons_append, rend_cons]
    refine ⟨(hasPrefix_iff _ _).2 ⟨_, rfl⟩, ?_⟩
    cases hp : hasPrefix (47 :: (s ++ rend (init ++ [l]))) [47, 47] with
    | false => rfl
    | true =>
      obtain ⟨t, et⟩ := (hasPrefix_iff _ _).1 hp
      have hs := hi s (by simp)
      cases s with
      | nil => exact absurd rfl hs.1
      | cons c s' =>
        simp only [List.cons_append, List.nil_append, List.cons.injEq, true_and] at et
        have := hs.2.1
        rw [et.1] at this; simp at this

theorem cleanPath_form (p proto : Bytes) : cleanPath p proto = [] ∨ CleanForm (cleanPath p proto) := by
  unfold cleanPath
  simp only
  generalize hp1 : (if (!hasPrefix p [47] && (isSpecialProtocol proto || p != [])) = true then 47 :: p else p) = p1
  by_cases hne : p1 = []
  · left; simp [hne]
  · right
    have hne' : (p1 != []) = true := by simpa using hne
    simp only [hne', if_true]
    have hroot : ∃ y, p1 = 47 :: y := by
      subst hp1
      by_cases hc : (!hasPrefix p [47] && (isSpecialProtocol proto || p != [])) = true
      · rw [if_pos hc]; exact ⟨p, rfl⟩
      · rw [if_neg hc] at hne ⊢
        simp only [Bool.and_eq_true, Bool.not_eq_true', not_and] at hc
        cases hpp : hasPrefix p [47] with
        | true => obtain ⟨t, et⟩ := (hasPrefix_iff _ _).1 hpp; exact ⟨t, et⟩
        | false =>
          have := hc hpp
          simp only [Bool.or_eq_true, bne_iff_ne, ne_eq, not_or, Decidable.not_not] at this
          exact absurd this.2 hne
    obtain ⟨y, ey⟩ := hroot
    obtain ⟨st, hg, hc⟩ := pathClean_rooted y
    rw [ey, hc]
    by_cases hst : st = []
    · subst hst
      simp only [cout_nil, bne_self_eq_false, Bool.false_and, Bool.false_eq_true, if_false]
      exact ⟨[], [], good_nil, Or.inl rfl, rfl⟩
    · have hlen := rend_length_ge_two hg.inner hst
      have hcne : (cout st != [47]) = true := by
        rw [cout_ne hst]
        simp only [bne_iff_ne, ne_eq]
        intro e; rw [e] at hlen; simp at hlen
      simp only [hcne, Bool.true_and]
      split
      · refine ⟨st, [], hg, Or.inl rfl, ?_⟩
        rw [cout_ne hst, rend_append]; rfl
      · obtain ⟨st0, l, e⟩ : ∃ st0 l, st = st0 ++ [l] := ⟨st.dropLast, st.getLast hst, (List.dropLast_concat_getLast hst).symm⟩
        refine ⟨st0, l, ?_, Or.inr ?_, by rw [cout_ne hst, e]⟩
        · intro s hs; exact hg s (by rw [e]; simp [hs])
        · intro s hs
          simp only [List.mem_singleton] at hs
          subst hs
          exact hg s (by rw [e]; simp)

theorem cleanPath_idem (p proto : Bytes) : cleanPath (cleanPath p proto) proto = cleanPath p proto := by
  rcases cleanPath_form p proto with h | h
  · rw [h]
    -- `cleanPath [] proto = []` can only come from a non-special scheme
    unfold cleanPath at h ⊢
    by_cases hs : isSpecialProtocol proto = true
    · exfalso
      simp only [hs, Bool.true_or, Bool.and_true] at h
      have hroot : ∃ y, (if (!hasPrefix p [47]) = true then 47 :: p else p) = 47 :: y := by
        split
        · exact ⟨p, rfl⟩
        · next hc =>
          simp only [Bool.not_eq_true', Bool.not_eq_false] at hc
          obtain ⟨t, et⟩ := (hasPrefix_iff _ _).1 hc; exact ⟨t, et⟩
      obtain ⟨y, ey⟩ := hroot
      rw [ey] at h
      obtain ⟨st, hg, hc⟩ := pathClean_rooted y
      simp only [hc] at h
      have hne : ((47 :: y) != []) = true := by simp
      simp only [hne, if_true] at h
      split at h
      · simp at h
      · exact cout_ne_nil st h
    · have hs' : isSpecialProtocol proto = false := by simpa using hs
      simp [hs', hasPrefix]
  · exact cleanForm_fixed _ _ h

end PathIdem

theorem hasPrefix_toLower (w : Bytes) : hasPrefix (toLowerAscii w) [91] = hasPrefix w [91] := by
  cases w with
  | nil => rfl
  | cons c t =>
    rw [toLowerAscii_eq, List.map_cons, hasPrefix_cons1, hasPrefix_cons1]
    have := (lowerByte_facts c)
    by_cases hc : c = 91
    · subst hc; rfl
    · have h1 : ((91 : UInt8) == c) = false := by simpa using fun e => hc e.symm
      rw [h1]
      have : lowerByte c ≠ 91 := by
        have hf := byte_all (fun c => (lowerByte c == 91) == (c == 91)) (by decide +kernel) c
        intro e
        rw [e] at hf
        simp at hf
        exact hc hf
      simpa using fun e => this e.symm


/-! ## `Idna.toASCII` on its own output -/

/-- punycode digits only -/
def IsDigits (t : Bytes) : Prop := ∀ b ∈ t, ∃ d, d < 36 ∧ b = Idna.digit d

theorem isDigits_nil : IsDigits [] := fun _ h => by cases h

theorem isDigits_append {a b : Bytes} (ha : IsDigits a) (hb : IsDigits b) : IsDigits (a ++ b) := by
  intro x hx
  rcases List.mem_append.1 hx with h | h
  · exact ha x h
  · exact hb x h

theorem encVar_ext : ∀ (f q k bias : Nat) (out : Bytes), ∃ t, Idna.encVar f q k bias out = out ++ t ∧ IsDigits t := by
  intro f
  induction f with
  | zero => intro q k bias out; exact ⟨[], by simp [Idna.encVar], isDigits_nil⟩
  | succ f ih =>
    intro q k bias out
    unfold Idna.encVar
    simp only
    generalize ht : (if k ≤ bias then 1 else if k ≥ bias + 26 then 26 else k - bias) = t
    have htb : 1 ≤ t ∧ t ≤ 26 := by
      subst ht
      split
      · omega
      · split <;> omega
    split
    · next hq =>
      refine ⟨[Idna.digit q], rfl, ?_⟩
      intro b hb
      simp only [List.mem_singleton] at hb
      exact ⟨q, by omega, hb⟩
    · obtain ⟨t', e, hd⟩ := ih ((q - t) / (36 - t)) (k + 36) bias (out ++ [Idna.digit (t + (q - t) % (36 - t))])
      refine ⟨Idna.digit (t + (q - t) % (36 - t)) :: t', by rw [e]; simp, ?_⟩
      intro b hb
      rcases List.mem_cons.1 hb with h | h
      · have : (q - t) % (36 - t) < 36 - t := Nat.mod_lt _ (by omega)
        exact ⟨_, by omega, h⟩
      · exact hd b h

theorem encInner_ext (b : Nat) (st : Idna.PSt) (r : Nat) : ∃ t, (Idna.encInner b st r).out = st.out ++ t ∧ IsDigits t := by
  unfold Idna.encInner
  split
  · exact ⟨[], by simp, isDigits_nil⟩
  · split
    · exact ⟨[], by simp, isDigits_nil⟩
    · exact encVar_ext _ _ _ _ _

theorem foldl_encInner_ext (b : Nat) (s : List Nat) : ∀ st : Idna.PSt,
    ∃ t, (s.foldl (Idna.encInner b) st).out = st.out ++ t ∧ IsDigits t := by
  induction s with
  | nil => intro st; exact ⟨[], by simp, isDigits_nil⟩
  | cons r t ih =>
    intro st
    obtain ⟨t1, e1, h1⟩ := encInner_ext b st r
    obtain ⟨t2, e2, h2⟩ := ih (Idna.encInner b st r)
    exact ⟨t1 ++ t2, by rw [List.foldl_cons, e2, e1]; simp, isDigits_append h1 h2⟩

theorem encOuter_ext (s : List Nat) (b : Nat) : ∀ (f : Nat) (st : Idna.PSt),
    ∃ t, (Idna.encOuter s b f st).out = st.out ++ t ∧ IsDigits t := by
  intro f
  induction f with
  | zero => intro st; exact ⟨[], by simp [Idna.encOuter], isDigits_nil⟩
  | succ f ih =>
    intro st
    unfold Idna.encOuter
    split
    · exact ⟨[], by simp, isDigits_nil⟩
    · simp only
      obtain ⟨t1, e1, h1⟩ := foldl_encInner_ext b s
        { st with delta := st.delta + ((s.filter (· ≥ st.n)).foldl min 0x7fffffff - st.n) * (st.h + 1),
                  n := (s.filter (· ≥ st.n)).foldl min 0x7fffffff }
      obtain ⟨t2, e2, h2⟩ := ih { (s.foldl (Idna.encInner b) { st with delta := st.delta + ((s.filter (· ≥ st.n)).foldl min 0x7fffffff - st.n) * (st.h + 1), n := (s.filter (· ≥ st.n)).foldl min 0x7fffffff }) with delta := (s.foldl (Idna.encInner b) { st with delta := st.delta + ((s.filter (· ≥ st.n)).foldl min 0x7fffffff - st.n) * (st.h + 1), n := (s.filter (· ≥ st.n)).foldl min 0x7fffffff }).delta + 1, n := (s.foldl (Idna.encInner b) { st with delta := st.delta + ((s.filter (· ≥ st.n)).foldl min 0x7fffffff - st.n) * (st.h + 1), n := (s.filter (· ≥ st.n)).foldl min 0x7fffffff }).n + 1 }
      refine ⟨t1 ++ t2, ?_, isDigits_append h1 h2⟩
      rw [e2]
      simp only at e1 ⊢
      rw [e1]; simp

/-- the shape of a punycode label -/
theorem punyEncode_shape (cps : List Nat) :
    ∃ t, Idna.punyEncode cps = [120, 110, 45, 45] ++ (cps.filter (· < 128)).map Nat.toUInt8 ++
      (if (cps.filter (· < 128)).length > 0 then [45] else []) ++ t ∧ IsDigits t := by
  unfold Idna.punyEncode
  simp only
  obtain ⟨t, e, h⟩ := encOuter_ext cps ((cps.filter (· < 128)).map Nat.toUInt8).length
    (cps.length - ((cps.filter (· < 128)).map Nat.toUInt8).length + 1)
    { delta := 0, n := 128, bias := 72, h := ((cps.filter (· < 128)).map Nat.toUInt8).length,
      remaining := cps.length - ((cps.filter (· < 128)).map Nat.toUInt8).length,
      out := [120, 110, 45, 45] ++ (cps.filter (· < 128)).map Nat.toUInt8 ++
        (if ((cps.filter (· < 128)).map Nat.toUInt8).length > 0 then [45] else []) }
  refine ⟨t, ?_, h⟩
  rw [e]
  simp

/-- what an input label may contain after lower-casing and splitting: no `.`, no capital -/
def InB (b : UInt8) : Bool := b != 46 && !(65 ≤ b && b ≤ 90)
/-- what an output label contains -/
def OutB (b : UInt8) : Bool := b < 128 && InB b

theorem digit_outB_fin : ∀ d : Fin 36, OutB (Idna.digit d.val) = true := by decide

theorem isDigits_outB (t : Bytes) (h : IsDigits t) : t.all OutB = true := by
  rw [List.all_eq_true]
  intro b hb
  obtain ⟨d, hd, e⟩ := h b hb
  rw [e]; exact digit_outB_fin ⟨d, hd⟩

theorem basic_sub (l : Bytes) (cps : List Nat) (h : Idna.utf8Dec l = some cps) :
    ∀ n ∈ cps, n < 128 → n.toUInt8 ∈ l ∧ n.toUInt8.toNat = n := by
  obtain ⟨cs, e1, e2⟩ := utf8Dec_bytes l cps h
  intro n hn hlt
  rw [e1] at hn
  obtain ⟨c, hc, ec⟩ := List.mem_map.1 hn
  obtain ⟨hb, hv⟩ := asciiChar_byte c (by omega)
  have hcn : c.val.toUInt8 = n.toUInt8 := by
    apply UInt8.toNat_inj.1
    rw [hv, ec]
    simp only [Nat.toUInt8, UInt8.toNat_ofNat']
    omega
  refine ⟨?_, by simp only [Nat.toUInt8, UInt8.toNat_ofNat']; omega⟩
  rw [e2, List.mem_flatMap]
  exact ⟨c, hc, by rw [hb, hcn]; simp⟩

theorem punyEncode_outB (l : Bytes) (cps : List Nat) (h : Idna.utf8Dec l = some cps) (hl : l.all InB = true) :
    (Idna.punyEncode cps).all OutB = true ∧ [120, 110, 45, 45].isPrefixOf (Idna.punyEncode cps) = true := by
  obtain ⟨t, e, ht⟩ := punyEncode_shape cps
  rw [e]
  constructor
  · simp only [List.all_append, Bool.and_eq_true]
    refine ⟨⟨⟨by decide, ?_⟩, by split <;> decide⟩, isDigits_outB t ht⟩
    rw [List.all_eq_true]
    intro b hb
    obtain ⟨n, hn, en⟩ := List.mem_map.1 hb
    rw [List.mem_filter] at hn
    have hlt : n < 128 := by simpa using hn.2
    obtain ⟨hm, hv⟩ := basic_sub l cps h n hn.1 hlt
    rw [← en]
    have hin := List.all_eq_true.1 hl _ hm
    unfold OutB
    rw [hin, Bool.and_true]
    simp only [decide_eq_true_eq, UInt8.lt_iff_toNat_lt, hv]
    exact hlt
  · simp [List.isPrefixOf]

theorem labelToASCII_second (l a : Bytes) (h : Idna.labelToASCII l = .ok a) (hl : l.all InB = true) :
    a.all OutB = true ∧ (Idna.labelToASCII a = .ok a ∨ Idna.labelToASCII a = .noclaim) ∧
    (a = l ∨ [120, 110, 45, 45].isPrefixOf a = true) := by
  have h0 := h
  unfold Idna.labelToASCII at h
  split at h
  · cases h
  · split at h
    · next hall =>
      cases h
      refine ⟨?_, Or.inl h0, Or.inl rfl⟩
      rw [List.all_eq_true] at hall hl ⊢
      intro b hb
      unfold OutB
      rw [hl b hb, hall b hb]; rfl
    · split at h
      · cases h
      · next cps hc =>
        split at h
        · cases h
          obtain ⟨p1, p2⟩ := punyEncode_outB l cps hc hl
          refine ⟨p1, Or.inr ?_, Or.inr p2⟩
          unfold Idna.labelToASCII
          simp [p2]
        · cases h

/-- labels and their ASCII forms -/
inductive Lab : List Bytes → List Bytes → Prop where
  | nil : Lab [] []
  | cons {l a : Bytes} {ls as : List Bytes} : Idna.labelToASCII l = .ok a → Lab ls as → Lab (l :: ls) (a :: as)

theorem go_ok (ch : Bytes) : ∀ (ls acc : List Bytes), Idna.toASCIILower.go ls (some acc) = .ok ch →
    ∃ as, Lab ls as ∧
      ch = ([46] : Bytes).intercalate (acc.reverse ++ as) := by
  intro ls
  induction ls with
  | nil =>
    intro acc h
    simp only [Idna.toASCIILower.go] at h
    cases h
    exact ⟨[], Lab.nil, by simp⟩
  | cons l t ih =>
    intro acc h
    simp only [Idna.toASCIILower.go] at h
    split at h
    · next a ha =>
      obtain ⟨as, hf, e⟩ := ih (a :: acc) h
      exact ⟨a :: as, Lab.cons ha hf, by rw [e]; simp⟩
    · next r hr =>
      rw [h] at hr
      exact absurd rfl (hr ch)

theorem go_second : ∀ (as acc : List Bytes),
    (∀ a ∈ as, Idna.labelToASCII a = .ok a ∨ Idna.labelToASCII a = .noclaim) →
    Idna.toASCIILower.go as (some acc) = .ok (([46] : Bytes).intercalate (acc.reverse ++ as)) ∨
    Idna.toASCIILower.go as (some acc) = .noclaim := by
  intro as
  induction as with
  | nil => intro acc _; left; simp [Idna.toASCIILower.go]
  | cons a t ih =>
    intro acc h
    simp only [Idna.toASCIILower.go]
    rcases h a (by simp) with ha | ha
    · rw [ha]
      simp only
      have := ih (a :: acc) (fun x hx => h x (List.mem_cons_of_mem _ hx))
      simpa using this
    · rw [ha]; right; rfl

theorem splitOn_not_mem (sep : UInt8) : ∀ (s l : Bytes), l ∈ splitOn sep s → sep ∉ l := by
  intro s
  induction s with
  | nil => intro l hl; simp [splitOn] at hl; subst hl; simp
  | cons c cs ih =>
    intro l hl
    unfold splitOn at hl
    split at hl
    · rcases List.mem_cons.1 hl with e | hl'
      · subst e; simp
      · exact ih l hl'
    · next hc =>
      split at hl
      · simp only [List.mem_singleton] at hl
        subst hl; simp; exact fun e => hc e.symm
      · next w ws hw =>
        rcases List.mem_cons.1 hl with e | hl'
        · subst e
          have := ih w (by rw [hw]; exact List.mem_cons_self)
          intro hm
          rcases List.mem_cons.1 hm with e | h'
          · exact hc e.symm
          · exact this h'
        · exact ih l (by rw [hw]; exact List.mem_cons_of_mem _ hl')

theorem splitOn_intercalate (sep : UInt8) : ∀ (as : List Bytes), as ≠ [] → (∀ a ∈ as, sep ∉ a) →
    splitOn sep (([sep] : Bytes).intercalate as) = as := by
  intro as
  induction as with
  | nil => intro h; exact absurd rfl h
  | cons a t ih =>
    intro _ h
    cases t with
    | nil => simp only [List.intercalate_singleton]; exact splitOn_no_sep sep a (h a (by simp))
    | cons b t' =>
      rw [List.intercalate_cons_cons]
      simp only [List.append_assoc, List.singleton_append]
      rw [splitOn_append_sep sep a _ (h a (by simp)), ih (by simp) (fun x hx => h x (List.mem_cons_of_mem _ hx))]

theorem lab_length : ∀ {l m : List Bytes}, Lab l m → l.length = m.length
  | _, _, .nil => rfl
  | _, _, .cons _ h => by simp [lab_length h]

theorem lab_mem : ∀ {l m : List Bytes}, Lab l m → ∀ b ∈ m, ∃ a ∈ l, Idna.labelToASCII a = .ok b
  | _, _, .nil, b, hb => by cases hb
  | _, _, .cons h t, b, hb => by
    rcases List.mem_cons.1 hb with e | hb'
    · subst e; exact ⟨_, List.mem_cons_self, h⟩
    · obtain ⟨a, ha, hr⟩ := lab_mem t b hb'
      exact ⟨a, List.mem_cons_of_mem _ ha, hr⟩

theorem splitOn_ne_nil' (c : UInt8) (s : Bytes) : splitOn c s ≠ [] := by
  induction s with
  | nil => simp [splitOn]
  | cons d s ih =>
    rw [splitOn]
    split
    · simp
    · split
      · rename_i h; exact absurd h ih
      · simp

theorem notUpper_lowerByte_fin : ∀ n : Fin 256, (!(65 ≤ lowerByte (UInt8.ofNat n.val) && lowerByte (UInt8.ofNat n.val) ≤ 90)) = true := by
  decide +kernel

theorem lowerByte_of_notUpper (c : UInt8) (h : (65 ≤ c && c ≤ 90) = false) : lowerByte c = c := by
  unfold lowerByte; simp [h]

/-- a byte below 128 occurs in the UTF-8 encoding of a character only as that character -/
theorem memB_encodeChar (b : UInt8) (hb : b.toNat < 128) (d : Char) (h : b ∈ String.utf8EncodeChar d) :
    d.toNat = b.toNat := by
  have hv : d.toNat = d.val.toNat := rfl
  have key : ∀ n : Nat, UInt8.ofNat n = b → n % 256 = b.toNat := by
    intro n hn
    have := congrArg UInt8.toNat hn
    simpa using this
  unfold String.utf8EncodeChar at h
  simp only at h
  split at h
  · simp only [List.mem_singleton] at h
    have := key _ h.symm
    omega
  · split at h
    · simp only [List.mem_cons, List.not_mem_nil, or_false] at h
      rcases h with h | h <;> have := key _ h.symm <;> omega
    · split at h
      · simp only [List.mem_cons, List.not_mem_nil, or_false] at h
        rcases h with h | h | h <;> have := key _ h.symm <;> omega
      · simp only [List.mem_cons, List.not_mem_nil, or_false] at h
        rcases h with h | h | h | h <;> have := key _ h.symm <;> omega

theorem charOfNat_toNat (m b : Nat) (hb : b ≠ 0) (h : (Char.ofNat m).toNat = b) : m = b := by
  unfold Char.ofNat at h
  split at h
  · exact h
  · have h0 : (0 : Nat) = b := h
    omega

theorem lowerCp_notUpper (n : Nat) : ¬ (65 ≤ Idna.lowerCp n ∧ Idna.lowerCp n ≤ 90) := by
  unfold Idna.lowerCp
  repeat' split
  all_goals simp only [Bool.and_eq_true, decide_eq_true_eq, bne_iff_ne, ne_eq] at *
  all_goals omega

theorem lowerCp_91 (n : Nat) (h : Idna.lowerCp n = 91) : n = 91 := by
  unfold Idna.lowerCp at h
  repeat' split at h
  all_goals simp only [Bool.and_eq_true, decide_eq_true_eq, bne_iff_ne, ne_eq] at *
  all_goals omega

/-- `lowerHost` leaves no capital letter -/
theorem lowerHost_noUpper (w lh : Bytes) (h : Idna.lowerHost w = some lh) :
    lh.all (fun b => !(65 ≤ b && b ≤ 90)) = true := by
  unfold Idna.lowerHost at h
  split at h
  · cases h
    rw [List.all_eq_true]
    intro b hb
    obtain ⟨c, _, e⟩ := List.mem_map.1 hb
    have := byte_all (fun c => !(65 ≤ lowerByte c && lowerByte c ≤ 90)) notUpper_lowerByte_fin c
    rw [← e]
    exact this
  · split at h
    · cases h
    · next cps hc =>
      split at h
      · cases h
        rw [List.all_eq_true]
        intro b hb
        unfold Idna.utf8Enc at hb
        rw [utf8_bytes] at hb
        obtain ⟨d, hd, hx⟩ := List.mem_flatMap.1 hb
        obtain ⟨m, hm, e⟩ := List.mem_map.1 hd
        obtain ⟨n, _, en⟩ := List.mem_map.1 hm
        cases hup : (65 ≤ b && b ≤ 90) with
        | false => rfl
        | true =>
          exfalso
          simp only [Bool.and_eq_true, decide_eq_true_eq, UInt8.le_iff_toNat_le] at hup
          have h65 : (65 : UInt8).toNat = 65 := rfl
          have h90 : (90 : UInt8).toNat = 90 := rfl
          have hbt : b.toNat < 128 := by omega
          subst e
          have := memB_encodeChar b hbt _ hx
          have := charOfNat_toNat m b.toNat (by omega) this
          subst en
          exact lowerCp_notUpper n (by omega)
      · cases h

theorem toASCII_structure (w ch : Bytes) (h : Idna.toASCII w = .ok ch) :
    ∃ lh as, Idna.lowerHost w = some lh ∧ Lab (splitOn 46 lh) as ∧ ch = ([46] : Bytes).intercalate as := by
  unfold Idna.toASCII at h
  split at h
  · cases h
  · next lh hl =>
    unfold Idna.toASCIILower at h
    simp only at h
    obtain ⟨as, hlab, e⟩ := go_ok ch _ [] h
    exact ⟨lh, as, hl, hlab, by simpa using e⟩

theorem labels_inB (w lh : Bytes) (h : Idna.lowerHost w = some lh) : ∀ l ∈ splitOn 46 lh, l.all InB = true := by
  intro l hl
  have hup := lowerHost_noUpper w lh h
  rw [List.all_eq_true] at hup ⊢
  intro b hb
  unfold InB
  have h46 : b ≠ 46 := by
    intro e; subst e; exact splitOn_not_mem 46 lh l hl hb
  have := hup b (mem_splitOn 46 lh l hl b hb)
  have h1 : (b != 46) = true := by simpa using h46
  rw [h1, Bool.true_and]
  exact this

theorem idna_idem (w ch : Bytes) (h : Idna.toASCII w = .ok ch) :
    Idna.toASCII ch = .ok ch ∨ Idna.toASCII ch = .noclaim := by
  obtain ⟨lh, as, hl, hlab, e⟩ := toASCII_structure w ch h
  have hin := labels_inB w lh hl
  have has : ∀ a ∈ as, a.all OutB = true ∧ (Idna.labelToASCII a = .ok a ∨ Idna.labelToASCII a = .noclaim) := by
    intro a ha
    obtain ⟨l, hl', hr⟩ := lab_mem hlab a ha
    have := labelToASCII_second l a hr (hin l hl')
    exact ⟨this.1, this.2.1⟩
  have hne : as ≠ [] := by
    intro e'
    have := lab_length hlab
    rw [e'] at this
    exact splitOn_ne_nil' 46 lh (List.eq_nil_of_length_eq_zero this)
  -- the bytes of `ch`
  have hch : ∀ b ∈ ch, b < 128 ∧ (65 ≤ b && b ≤ 90) = false := by
    intro b hb
    rw [e] at hb
    rcases mem_intercalate _ _ _ hb with hb | ⟨a, ha, hx⟩
    · simp only [List.mem_singleton] at hb; subst hb; exact ⟨by decide, by decide⟩
    · have := List.all_eq_true.1 (has a ha).1 b hx
      unfold OutB InB at this
      simp only [Bool.and_eq_true, decide_eq_true_eq, Bool.not_eq_true'] at this
      exact ⟨this.1, this.2.2⟩
  have hlow : Idna.lowerHost ch = some ch := by
    unfold Idna.lowerHost
    have : ch.all (· < 128) = true := by
      rw [List.all_eq_true]; intro b hb; simpa using (hch b hb).1
    simp only [this, if_true, Option.some.injEq]
    conv => rhs; rw [← List.map_id ch]
    apply List.map_congr_left
    intro b hb
    simp [(hch b hb).2]
  have hsplit : splitOn 46 ch = as := by
    rw [e]
    apply splitOn_intercalate 46 as hne
    intro a ha hm
    have := List.all_eq_true.1 (has a ha).1 46 hm
    revert this; decide
  unfold Idna.toASCII
  rw [hlow]
  simp only
  unfold Idna.toASCIILower
  simp only
  rw [hsplit]
  have := go_second as [] (fun a ha => (has a ha).2)
  simp only [List.reverse_nil, List.nil_append] at this
  rw [← e] at this
  exact this

theorem splitOn_head (sep : UInt8) (s l1 : Bytes) (ls : List Bytes) (x : UInt8) (t : Bytes)
    (h : splitOn sep s = l1 :: ls) (hl : l1 = x :: t) : ∃ s', s = x :: s' := by
  cases s with
  | nil => simp [splitOn] at h; rw [h.1] at hl; cases hl
  | cons c cs =>
    unfold splitOn at h
    split at h
    · simp only [List.cons.injEq] at h; rw [← h.1] at hl; cases hl
    · split at h
      · simp only [List.cons.injEq] at h
        rw [← h.1] at hl
        simp only [List.cons.injEq] at hl
        exact ⟨cs, by rw [hl.1]⟩
      · simp only [List.cons.injEq] at h
        rw [← h.1] at hl
        simp only [List.cons.injEq] at hl
        exact ⟨cs, by rw [hl.1]⟩

theorem lowerHost_head (w lh : Bytes) (h : Idna.lowerHost w = some lh) (hp : hasPrefix lh [91] = true) :
    hasPrefix w [91] = true := by
  unfold Idna.lowerHost at h
  split at h
  · cases h
    have : (w.map fun c => if 65 ≤ c && c ≤ 90 then c + 32 else c) = toLowerAscii w := rfl
    rw [this, hasPrefix_toLower] at hp
    exact hp
  · split at h
    · cases h
    · next cps hc =>
      split at h
      · cases h
        obtain ⟨cs, e1, e2⟩ := utf8Dec_bytes w cps hc
        unfold Idna.utf8Enc at hp
        rw [utf8_bytes] at hp
        subst e1
        cases cs with
        | nil => simp [hasPrefix] at hp
        | cons c0 cs' =>
          simp only [List.map_cons, List.flatMap_cons] at hp
          have hne := @String.utf8EncodeChar_ne_nil (Char.ofNat (Idna.lowerCp c0.toNat))
          cases henc : String.utf8EncodeChar (Char.ofNat (Idna.lowerCp c0.toNat)) with
          | nil => exact absurd henc hne
          | cons b bs =>
            rw [henc] at hp
            simp only [List.cons_append] at hp
            rw [hasPrefix_cons1] at hp
            have hb : b = 91 := by have := hp; simp at this; exact this.symm
            have hmem : (91 : UInt8) ∈ String.utf8EncodeChar (Char.ofNat (Idna.lowerCp c0.toNat)) := by
              rw [henc, hb]; simp
            have h1 := memB_encodeChar 91 (by decide) _ hmem
            have h2 := charOfNat_toNat _ 91 (by decide) h1
            have h3 := lowerCp_91 _ h2
            obtain ⟨hb0, hv0⟩ := asciiChar_byte c0 (by omega)
            rw [e2]
            simp only [List.flatMap_cons, hb0, List.cons_append, List.nil_append]
            rw [hasPrefix_cons1]
            have : c0.val.toUInt8 = 91 := by
              apply UInt8.toNat_inj.1
              rw [hv0, h3]; rfl
            rw [this]; rfl
      · cases h

theorem idna_prefix (w ch : Bytes) (h : Idna.toASCII w = .ok ch) (hp : hasPrefix w [91] = false) :
    hasPrefix ch [91] = false := by
  cases hc : hasPrefix ch [91] with
  | false => rfl
  | true =>
    exfalso
    obtain ⟨lh, as, hl, hlab, e⟩ := toASCII_structure w ch h
    have hin := labels_inB w lh hl
    cases hlab' : splitOn 46 lh with
    | nil => exact splitOn_ne_nil' 46 lh hlab'
    | cons l1 ls =>
      rw [hlab'] at hlab
      cases hlab with
      | cons h1 hrest =>
        rename_i a1 as'
        have hsec := labelToASCII_second l1 a1 h1 (hin l1 (by rw [hlab']; simp))
        -- `ch` begins with the first label
        have hform : ∃ rest, ch = a1 ++ rest ∧ (rest = [] ∨ ∃ r, rest = 46 :: r) := by
          rw [e]
          cases as' with
          | nil => exact ⟨[], by simp, Or.inl rfl⟩
          | cons b t => exact ⟨46 :: ([46] : Bytes).intercalate (b :: t), by simp, Or.inr ⟨_, rfl⟩⟩
        obtain ⟨rest, ech, hrest'⟩ := hform
        cases ha1 : a1 with
        | nil =>
          rw [ech, ha1] at hc
          rcases hrest' with e' | ⟨r, e'⟩
          · rw [e'] at hc; simp [hasPrefix] at hc
          · rw [e'] at hc; simp only [List.nil_append] at hc; rw [hasPrefix_cons1] at hc; revert hc; decide
        | cons x t =>
          rw [ech, ha1] at hc
          simp only [List.cons_append] at hc
          rw [hasPrefix_cons1] at hc
          have hx : x = 91 := by have := hc; simp at this; exact this.symm
          rcases hsec.2.2 with e' | e'
          · -- the label was kept
            rw [ha1] at e'
            obtain ⟨s', es⟩ := splitOn_head 46 lh l1 ls x t hlab' e'.symm
            have : hasPrefix lh [91] = true := by rw [es, hasPrefix_cons1, hx]; rfl
            have := lowerHost_head w lh hl this
            rw [hp] at this; cases this
          · rw [ha1, hx] at e'
            simp [List.isPrefixOf] at e'

/-! ## the host invariant behind re-parsing -/

/-- a bracketed port-less part ends with `]` -/
def BrOK (w : Bytes) : Prop := hasPrefix w [91] = true → w.getLast? = some 93

/-- the port-less part is what `fixURL` makes of it -/
def WNorm (s w : Bytes) : Prop :=
  (hasPrefix w [91] = true → toLowerAscii w = w) ∧
  (hasPrefix w [91] = false → isSpecialNetProtocol s = true →
    Idna.toASCII w = .ok w ∨ Idna.toASCII w = .noclaim)

def PortOK (s opt : Bytes) : Prop :=
  (∀ n, atoi (opt.drop 1) = some n → isDefaultURLPort s n = false) ∧ (opt.drop 1 ≠ [] → (atoi (opt.drop 1)).isSome = true)

def HostInv2 (u : URL) : Prop :=
  ∃ w opt, Decomp u.host w opt ∧ opt ≠ [58] ∧ PortOK u.scheme opt ∧ BrOK w ∧ WNorm u.scheme w

theorem lowerByte_idem_fin : ∀ n : Fin 256, lowerByte (lowerByte (UInt8.ofNat n.val)) == lowerByte (UInt8.ofNat n.val) := by
  decide +kernel

theorem toLowerAscii_idem (s : Bytes) : toLowerAscii (toLowerAscii s) = toLowerAscii s := by
  rw [toLowerAscii_eq, toLowerAscii_eq, List.map_map]
  apply List.map_congr_left
  intro c _
  have := byte_all (fun c => lowerByte (lowerByte c) == lowerByte c) lowerByte_idem_fin c
  simpa using this

theorem hasPrefix_append_left (w opt : Bytes) (h : hasPrefix w [91] = true) : hasPrefix (w ++ opt) [91] = true := by
  obtain ⟨t, et⟩ := (hasPrefix_iff _ _).1 h
  exact (hasPrefix_iff _ _).2 ⟨t ++ opt, by rw [et]; simp⟩

theorem fixHost_decomp2 (scheme host h' w opt : Bytes) (hf : fixHost scheme host = .ok h')
    (hd : Decomp host w opt) (hb : BrOK w) :
    ∃ w' opt', Decomp h' w' opt' ∧ opt' ≠ [58] ∧ opt'.drop 1 = opt.drop 1 ∧ BrOK w' ∧ WNorm scheme w' := by
  obtain ⟨e, hw, ho⟩ := hd
  obtain ⟨opt1, ht, ho1, hne1, hdrop⟩ := trim_decomp w opt hw ho
  unfold fixHost at hf
  rw [e, ht] at hf
  simp only at hf
  split at hf
  · next hbr =>
    have hwpre : hasPrefix w [91] = true := by
      cases w with
      | nil =>
        exfalso
        rcases validOptionalPort_cases opt1 ho1 with e1 | ⟨ds, e1, _⟩
        · subst e1; simp [hasPrefix] at hbr
        · subst e1; simp [hasPrefix, List.isPrefixOf] at hbr
      | cons c t =>
        simp only [List.cons_append] at hbr
        rw [hasPrefix_cons1] at hbr ⊢; exact hbr
    split at hf
    · cases hf
      refine ⟨toLowerAscii w, opt1, ⟨?_, goodW_toLower w hw, ho1⟩, hne1, hdrop, ?_, ?_, ?_⟩
      · rw [toLowerAscii_eq, List.map_append, ← toLowerAscii_eq, ← toLowerAscii_eq, toLowerAscii_opt opt1 ho1]
      · intro _
        rw [toLowerAscii_eq, List.getLast?_map, hb hwpre]; rfl
      · intro _; exact toLowerAscii_idem w
      · intro hp
        rw [hasPrefix_toLower, hwpre] at hp; cases hp
    · cases hf
  · next hnb =>
    have hwp' : hasPrefix w [91] = false := by
      cases hp : hasPrefix w [91] with
      | false => rfl
      | true => exact absurd (hasPrefix_append_left w opt1 hp) hnb
    have hwc : (58 : UInt8) ∉ w := by
      rcases hw with h | ⟨hp, _⟩
      · exact h
      · rw [hwp'] at hp; cases hp
    have hbr' : BrOK w := fun hp => by rw [hwp'] at hp; cases hp
    split at hf
    · next hsn =>
      have hport : (splitHostPort (w ++ opt1)).2 = opt1.drop 1 := (decomp_port w opt1 hw ho1).1
      have hname : (splitHostPort (w ++ opt1)).1 = w := by
        rcases validOptionalPort_cases opt1 ho1 with e1 | ⟨ds, e1, hds⟩
        · subst e1
          unfold splitHostPort
          rw [List.append_nil, lastIndexByte_eq_none w 58 hwc]
          simp [hwp']
        · subst e1
          unfold splitHostPort
          rw [lastIndexByte_append w ds 58 (not_mem_of_all_digit ds hds)]
          simp [validOptionalPort_cons, hds, hwp']
      rw [hport, hname] at hf
      split at hf
      · cases hf
      · cases hf
      · next ch hch =>
        split at hf
        · cases hf
          have hcp := idna_prefix w ch hch hwp'
          refine ⟨ch, opt1, ⟨?_, Or.inl (toASCII_no_colon w ch hch hwc), ho1⟩, hne1, hdrop, ?_, ?_, ?_⟩
          · rcases validOptionalPort_cases opt1 ho1 with e1 | ⟨ds, e1, hds⟩
            · subst e1; simp
            · subst e1
              cases ds with
              | nil => exact absurd rfl hne1
              | cons x d => simp
          · intro hp; rw [hcp] at hp; cases hp
          · intro hp; rw [hcp] at hp; cases hp
          · intro _ _; exact idna_idem w ch hch
        · next hce =>
          cases hf
          have hcw : ch = w := by simpa using hce
          refine ⟨w, opt1, ⟨rfl, hw, ho1⟩, hne1, hdrop, hbr', ?_, ?_⟩
          · intro hp; rw [hwp'] at hp; cases hp
          · intro _ _; left; rw [← hcw] at hch ⊢; exact hch
    · next hsn =>
      cases hf
      refine ⟨w, opt1, ⟨rfl, hw, ho1⟩, hne1, hdrop, hbr', ?_, ?_⟩
      · intro hp; rw [hwp'] at hp; cases hp
      · intro _ hs; exact absurd hs hsn

theorem fixURL_decomp2 (u u' : URL) (w opt : Bytes) (hf : fixURL u = .ok u') (hd : Decomp u.host w opt) (hb : BrOK w) :
    ∃ w' opt', Decomp u'.host w' opt' ∧ opt' ≠ [58] ∧ opt'.drop 1 = opt.drop 1 ∧ BrOK w' ∧ WNorm u.scheme w' ∧
      u'.scheme = u.scheme := by
  rw [fixURL_eq] at hf
  split at hf
  · cases hf
  · next h' hh =>
    cases hf
    obtain ⟨w', opt', h1, h2, h3, h4, h5⟩ := fixHost_decomp2 _ _ _ w opt hh hd hb
    exact ⟨w', opt', by rw [(fixRawQuery_host _).1]; exact h1, h2, h3, h4, h5, (fixRawQuery_host _).2⟩

theorem fixURL_hostInv2 (u u' : URL) (w opt : Bytes) (hf : fixURL u = .ok u') (hd : Decomp u.host w opt) (hb : BrOK w)
    (hp : PortOK u.scheme opt) : HostInv2 u' := by
  obtain ⟨w', opt', h1, h2, h3, h4, h5, h6⟩ := fixURL_decomp2 u u' w opt hf hd hb
  refine ⟨w', opt', h1, h2, ?_, h4, by rw [h6]; exact h5⟩
  unfold PortOK at hp ⊢
  rw [h3, h6]; exact hp

theorem portOK_nil (s : Bytes) : PortOK s [] := ⟨fun n h => (by cases h), fun h => absurd rfl h⟩

theorem normPort_decomp2 (u : URL) (w opt : Bytes) (hd : Decomp u.host w opt) :
    ∃ opt', Decomp (normPort u).host w opt' ∧ (normPort u).scheme = u.scheme ∧ PortOK u.scheme opt' := by
  have hp : u.port = opt.drop 1 := by rw [port_eq, hd.1]; exact (decomp_port w opt hd.2.1 hd.2.2).1
  have hc := clearURLPort_decomp u w opt hd
  have clear : ∃ opt', Decomp (clearURLPort u).host w opt' ∧ (clearURLPort u).scheme = u.scheme ∧ PortOK u.scheme opt' :=
    ⟨[], hc.1, hc.2, portOK_nil _⟩
  unfold normPort
  split
  · split
    · exact clear
    · next n hn =>
      split
      · exact clear
      · next hdef =>
        refine ⟨opt, hd, rfl, ?_, ?_⟩
        · intro m hm
          rw [← hp, hn] at hm
          cases hm
          simpa using hdef
        · intro _; rw [← hp, hn]; rfl
  · next hnil =>
    simp only [bne_iff_ne, ne_eq, Decidable.not_not] at hnil
    refine ⟨opt, hd, rfl, ?_, ?_⟩
    · intro m hm
      rw [← hp, hnil] at hm
      cases hm
    · intro h; rw [← hp] at h; exact absurd hnil h

theorem dropDefaultPort_hostInv2 (u : URL) (w opt : Bytes) (hd : Decomp u.host w opt) (hne : opt ≠ [58])
    (hnum : opt.drop 1 ≠ [] → (atoi (opt.drop 1)).isSome = true) (hb : BrOK w) (hw : WNorm u.scheme w) :
    HostInv2 (dropDefaultPort u) := by
  have hp : u.port = opt.drop 1 := by rw [port_eq, hd.1]; exact (decomp_port w opt hd.2.1 hd.2.2).1
  have hc := clearURLPort_decomp u w opt hd
  unfold dropDefaultPort
  split
  · next n hn =>
    split
    · exact ⟨w, [], hc.1, by simp, portOK_nil _, hb, hw⟩
    · next hdef =>
      refine ⟨w, opt, hd, hne, ⟨?_, hnum⟩, hb, hw⟩
      intro m hm
      rw [← hp, hn] at hm
      cases hm
      simpa using hdef
  · next hn =>
    refine ⟨w, opt, hd, hne, ⟨?_, hnum⟩, hb, hw⟩
    intro m hm
    rw [← hp, hn] at hm
    cases hm

theorem portDigits_bound : ∀ (s : Bytes) (acc : Int), -1 ≤ acc → acc ≤ 65535 →
    -1 ≤ portDigits s acc ∧ portDigits s acc ≤ 65535 := by
  intro s
  induction s with
  | nil => intro acc h1 h2; exact ⟨h1, h2⟩
  | cons c t ih =>
    intro acc h1 h2
    have key : ∀ a' : Int, 0 ≤ a' →
        (-1 ≤ (if a' > 65535 then -1 else portDigits t a') ∧ (if a' > 65535 then -1 else portDigits t a') ≤ 65535) := by
      intro a' h
      split
      · exact ⟨by omega, by omega⟩
      · exact ih a' (by omega) (by omega)
    unfold portDigits
    split
    · simp only
      apply key
      split
      · omega
      · next hne =>
        have : acc ≠ -1 := by simpa using hne
        omega
    · exact ⟨h1, h2⟩

theorem valueToURLPort_bound (v : PortArg) : -1 ≤ (valueToURLPort v).1 ∧ (valueToURLPort v).1 ≤ 65535 := by
  unfold valueToURLPort
  split
  · split
    · exact ⟨by omega, by omega⟩
    · split
      · exact ⟨by omega, by assumption⟩
      · exact ⟨by omega, by omega⟩
  · split
    · exact ⟨by omega, by omega⟩
    · split
      · exact ⟨by omega, by omega⟩
      · split
        · exact ⟨by omega, by omega⟩
        · exact portDigits_bound _ _ (by omega) (by omega)

theorem atoi_itoa (n : Nat) (h : n < 2 ^ 63) : atoi (itoa n) = some n := by
  obtain ⟨h1, h2, h3⟩ := itoa_spec n
  unfold atoi
  have : (itoa n == []) = false := by simpa using h2
  simp only [this, h1, Bool.not_true, Bool.or_self, Bool.false_eq_true, if_false, h3]
  have : ¬ n ≥ 2 ^ 63 := by omega
  simp [this]

theorem setURLPort_hostInv2 (u : URL) (v : PortArg) (h : HostInv2 u) : HostInv2 (setURLPort u v) := by
  obtain ⟨w, opt, hd, hne, hp, hb, hw⟩ := h
  have hc := clearURLPort_decomp u w opt hd
  have clear : HostInv2 (clearURLPort u) := ⟨w, [], hc.1, by simp, portOK_nil _, hb, hw⟩
  have same : HostInv2 u := ⟨w, opt, hd, hne, hp, hb, hw⟩
  have hbound := valueToURLPort_bound v
  unfold setURLPort
  split
  · exact same
  · split
    next portNum empty hv =>
    rw [hv] at hbound
    simp only at hbound
    split
    · exact clear
    · split
      · exact same
      · next hm1 =>
        have hnn : portNum.toNat < 2 ^ 63 := by
          have : portNum ≤ 65535 := hbound.2
          omega
        split
        · exact clear
        · next hdef =>
          obtain ⟨h1, h2, h3⟩ := itoa_spec portNum.toNat
          have hh : hostWithoutPort u = w := by
            rw [hostWithoutPort_eq, hd.1]; exact (decomp_port w opt hd.2.1 hd.2.2).2
          refine ⟨w, 58 :: itoa portNum.toNat, ⟨by simp only [hh], hd.2.1, by rw [validOptionalPort_cons]; exact h1⟩,
            by simpa using h2, ⟨?_, ?_⟩, hb, hw⟩
          · intro m hm
            simp only [List.drop_succ_cons, List.drop_zero] at hm
            rw [atoi_itoa _ hnn] at hm
            cases hm
            simpa using hdef
          · intro _
            simp only [List.drop_succ_cons, List.drop_zero]
            rw [atoi_itoa _ hnn]; rfl

theorem decomp_of_valid2 (u : URL) (hv : validHostColons u = true) (hb : PreB u.host) :
    ∃ w opt, Decomp u.host w opt ∧ BrOK w := by
  cases hp : hasPrefix u.host [91] with
  | true =>
    obtain ⟨X, opt, e, ho⟩ := hb hp
    refine ⟨X ++ [93], opt, ⟨by rw [e]; simp, Or.inr ⟨?_, by simp⟩, ho⟩, fun _ => by simp⟩
    obtain ⟨t, et⟩ := (hasPrefix_iff _ _).1 hp
    rw [e] at et
    cases X with
    | nil => simp at et
    | cons x X' =>
      simp only [List.cons_append, List.cons.injEq] at et
      exact (hasPrefix_iff _ _).2 ⟨X' ++ [93], by rw [et.1]; rfl⟩
  | false =>
    obtain ⟨opt, e, ho⟩ := hwp_decomp u.host
    have hnp : hasPrefix (hwp u.host) [91] = false := by
      cases hq : hasPrefix (hwp u.host) [91] with
      | false => rfl
      | true =>
        have := hasPrefix_append_left _ opt hq
        rw [← e, hp] at this; cases this
    refine ⟨hwp u.host, opt, ⟨e, Or.inl ?_, ho⟩, fun h => by rw [hnp] at h; cases h⟩
    unfold validHostColons at hv
    rw [hostWithoutPort_eq] at hv
    simp only [Bool.or_eq_true, Bool.not_eq_true', List.contains_eq_mem, decide_eq_false_iff_not] at hv
    rcases hv with hv | hv
    · rw [hnp] at hv; cases hv
    · exact hv

theorem normalizeURL_hostInv2 (u u' : URL) (h : normalizeURL u = .ok u')
    (hpre : PreB u.host ∨ ∃ w opt, Decomp u.host w opt ∧ BrOK w) : HostInv2 u' := by
  obtain ⟨hv, hf⟩ := normalizeURL_ok u u' h
  have : ∃ w opt, Decomp u.host w opt ∧ BrOK w := by
    rcases hpre with hb | hd
    · exact decomp_of_valid2 u hv hb
    · exact hd
  obtain ⟨w, opt, hd, hb⟩ := this
  obtain ⟨opt', hd', hs, hp⟩ := normPort_decomp2 u w opt hd
  exact fixURL_hostInv2 _ _ w opt' hf hd' hb (by rw [hs]; exact hp)

theorem validHost_ok2 (scheme host : Bytes) (h : validHost scheme host = .ok true) :
    ∃ p, ParseRequestURI (scheme ++ [58, 47, 47] ++ host) = some p ∧ p.host = host ∧ validHostColons p = true ∧
      (p.port ≠ [] → (atoi p.port).isSome = true) := by
  unfold validHost at h
  split at h
  · cases h
  · next p hp =>
    refine ⟨p, hp, ?_⟩
    split at h
    · cases h
    · next hc =>
      split at h
      · cases h
      · next hv =>
        simp only [Bool.or_eq_true, bne_iff_ne, ne_eq, not_or, Decidable.not_not] at hc
        simp only [Bool.not_eq_true', Bool.not_eq_false] at hv
        refine ⟨hc.1.1.1.1, hv, ?_⟩
        intro hpn
        simp only [bind, Except.bind, pure, Except.pure, throw, throwThe, MonadExceptOf.throw] at h
        repeat' split at h
        all_goals simp_all

/-! ## what `Parse` guarantees about scheme and opaque part -/

theorem getSchemeAux_sub (raw : Bytes) : ∀ (l : Bytes) (i : Nat) (s rest : Bytes),
    getSchemeAux raw i l = some (s, rest) → (∀ c ∈ l, c ∈ raw) → ∀ c ∈ rest, c ∈ raw := by
  intro l
  induction l with
  | nil =>
    intro i s rest h _ c hc
    simp only [getSchemeAux, Option.some.injEq, Prod.mk.injEq] at h
    rw [← h.2] at hc; exact hc
  | cons x t ih =>
    intro i s rest h hl c hc
    have ht : ∀ c ∈ t, c ∈ raw := fun c hc => hl c (List.mem_cons_of_mem _ hc)
    unfold getSchemeAux at h
    split at h
    · exact ih _ _ _ h ht c hc
    · split at h
      · split at h
        · simp only [Option.some.injEq, Prod.mk.injEq] at h; rw [← h.2] at hc; exact hc
        · exact ih _ _ _ h ht c hc
      · split at h
        · split at h
          · cases h
          · simp only [Option.some.injEq, Prod.mk.injEq] at h; rw [← h.2] at hc; exact ht c hc
        · simp only [Option.some.injEq, Prod.mk.injEq] at h; rw [← h.2] at hc; exact hc

theorem getScheme_sub (raw s rest : Bytes) (h : getScheme raw = some (s, rest)) : ∀ c ∈ rest, c ∈ raw :=
  getSchemeAux_sub raw raw 0 s rest h (fun _ hc => hc)

theorem first_occurrence (s : Bytes) (c : UInt8) (h : c ∈ s) : ∃ a b, s = a ++ c :: b ∧ c ∉ a := by
  induction s with
  | nil => cases h
  | cons x t ih =>
    by_cases hx : x = c
    · subst hx; exact ⟨[], t, rfl, by simp⟩
    · have ht : c ∈ t := by
        cases h with
        | head => exact absurd rfl hx
        | tail _ h' => exact h'
      obtain ⟨a, b, e, ha⟩ := ih ht
      refine ⟨x :: a, b, by rw [e]; rfl, ?_⟩
      intro hm
      rcases List.mem_cons.1 hm with e' | h'
      · exact hx e'.symm
      · exact ha h'

theorem cut_fst_sub (s : Bytes) (c : UInt8) : (∀ x ∈ (cut s c).1, x ∈ s) ∧ c ∉ (cut s c).1 := by
  by_cases h : c ∈ s
  · obtain ⟨a, b, e, ha⟩ := first_occurrence s c h
    rw [e, cut_append a b c ha]
    exact ⟨fun x hx => by simp [hx], ha⟩
  · rw [cut_none s c h]; exact ⟨fun x hx => hx, h⟩

theorem noCTL_sub (a b : Bytes) (h : ∀ c ∈ a, c ∈ b) (hb : containsCTL b = false) : containsCTL a = false := by
  unfold containsCTL at *
  rw [List.any_eq_false] at hb ⊢
  intro x hx
  exact hb x (h x hx)

theorem setPath_fields (u u' : URL) (p : Bytes) (h : setPath u p = some u') :
    u'.scheme = u.scheme ∧ u'.opaq = u.opaq := by
  unfold setPath at h
  split at h
  · cases h
  · cases h; exact ⟨rfl, rfl⟩

/-- the part of `parse` after the scheme and the query have been cut off, for either entry point -/
def parseTailV (v : Bool) (scheme rest rawQuery : Bytes) (forceQuery : Bool) : Option URL :=
  if !hasPrefix rest [47] && scheme != [] then
    some { scheme := scheme, opaq := rest, rawQuery := rawQuery, forceQuery := forceQuery }
  else if !hasPrefix rest [47] && v then none
  else if !hasPrefix rest [47] && (cut rest 47).1.contains 58 then none
  else if (scheme != [] || (!v && !hasPrefix rest [47, 47, 47])) && hasPrefix rest [47, 47] then
    let a := rest.drop 2
    let (authority, rest') := match indexByte a 47 with
      | some i => (a.take i, a.drop i)
      | none => (a, [])
    match parseAuthority authority with
    | none => none
    | some (user, host) =>
      setPath { scheme := scheme, user := user, host := host, rawQuery := rawQuery, forceQuery := forceQuery } rest'
  else
    setPath { scheme := scheme, omitHost := scheme != [] && hasPrefix rest [47],
              rawQuery := rawQuery, forceQuery := forceQuery } rest

theorem parse_eq_tailV (raw : Bytes) (v : Bool) (p : URL) (h : Net.parse raw v = some p) :
    containsCTL raw = false ∧ (p = { path := [42] } ∨ ∃ scheme0 rest0, getScheme raw = some (scheme0, rest0) ∧
      ((hasSuffix rest0 [63] = true ∧ countByte rest0 63 = 1 ∧
          parseTailV v (toLowerAscii scheme0) rest0.dropLast [] true = some p) ∨
        parseTailV v (toLowerAscii scheme0) (cut rest0 63).1 (cut rest0 63).2.1 false = some p)) := by
  unfold Net.parse at h
  split at h
  · cases h
  next hctl =>
  refine ⟨by simpa using hctl, ?_⟩
  split at h
  · cases h
  split at h
  · cases h; exact Or.inl rfl
  split at h
  · cases h
  · next scheme0 rest0 hgs =>
    right
    refine ⟨scheme0, rest0, hgs, ?_⟩
    simp only at h
    split at h
    · next hq =>
      simp only [Bool.and_eq_true, beq_iff_eq] at hq
      exact Or.inl ⟨hq.1, hq.2, h⟩
    · exact Or.inr h

theorem parseTailV_props (v : Bool) (scheme rest rq : Bytes) (fq : Bool) (p : URL)
    (h : parseTailV v scheme rest rq fq = some p) :
    p.scheme = scheme ∧ (p.opaq ≠ [] → p.opaq = rest ∧ hasPrefix rest [47] = false ∧ p.host = [] ∧ p.path = [] ∧
      p.scheme ≠ []) := by
  unfold parseTailV at h
  split at h
  · next hcond =>
    cases h
    simp only [Bool.and_eq_true, Bool.not_eq_true', bne_iff_ne, ne_eq] at hcond
    exact ⟨rfl, fun _ => ⟨rfl, hcond.1, rfl, rfl, hcond.2⟩⟩
  split at h
  · cases h
  split at h
  · cases h
  split at h
  · simp only at h
    split at h
    · cases h
    · have hs := setPath_fields _ _ _ h
      exact ⟨hs.1, fun ho => by rw [hs.2] at ho; exact absurd rfl ho⟩
  · have hs := setPath_fields _ _ _ h
    exact ⟨hs.1, fun ho => by rw [hs.2] at ho; exact absurd rfl ho⟩

/-- the opaque part `parse` stores -/
theorem parse_props (raw : Bytes) (v : Bool) (p : URL) (h : Net.parse raw v = some p) :
    toLowerAscii p.scheme = p.scheme ∧
    (p.opaq ≠ [] → hasPrefix p.opaq [47] = false ∧ (63 : UInt8) ∉ p.opaq ∧ (∀ c ∈ p.opaq, c ∈ raw) ∧
      containsCTL p.opaq = false ∧ p.host = [] ∧ p.path = [] ∧ p.scheme ≠ []) := by
  obtain ⟨hctl, hc⟩ := parse_eq_tailV raw v p h
  rcases hc with e | ⟨scheme0, rest0, hgs, hc⟩
  · subst e; exact ⟨rfl, fun h => absurd rfl h⟩
  · have hsub := getScheme_sub raw scheme0 rest0 hgs
    rcases hc with ⟨hsuf, hcnt, ht⟩ | ht
    · obtain ⟨hs, ho⟩ := parseTailV_props _ _ _ _ _ _ ht
      refine ⟨by rw [hs]; exact toLowerAscii_idem _, fun hne => ?_⟩
      obtain ⟨e, h1, h2, h3, h4⟩ := ho hne
      have hsubr : ∀ c ∈ rest0.dropLast, c ∈ raw := fun c hc => hsub c (List.dropLast_subset _ hc)
      refine ⟨by rw [e]; exact h1, ?_, by rw [e]; exact hsubr, by rw [e]; exact noCTL_sub _ raw hsubr hctl, h2, h3, h4⟩
      rw [e]
      obtain ⟨a, ea⟩ := (hasSuffix_iff _ _).1 hsuf
      unfold countByte at hcnt
      rw [ea] at hcnt ⊢
      simp only [List.dropLast_concat]
      intro hm
      have : 0 < List.count 63 a := List.count_pos_iff.2 hm
      simp [List.count_append] at hcnt
      omega
    · obtain ⟨hs, ho⟩ := parseTailV_props _ _ _ _ _ _ ht
      refine ⟨by rw [hs]; exact toLowerAscii_idem _, fun hne => ?_⟩
      obtain ⟨e, h1, h2, h3, h4⟩ := ho hne
      have hsubr : ∀ c ∈ (cut rest0 63).1, c ∈ raw := fun c hc => hsub c ((cut_fst_sub rest0 63).1 c hc)
      exact ⟨by rw [e]; exact h1, by rw [e]; exact (cut_fst_sub rest0 63).2, by rw [e]; exact hsubr,
        by rw [e]; exact noCTL_sub _ raw hsubr hctl, h2, h3, h4⟩

theorem setFragment_fields (u u' : URL) (f : Bytes) (h : setFragment u f = some u') :
    u'.scheme = u.scheme ∧ u'.opaq = u.opaq ∧ u'.host = u.host ∧ u'.path = u.path ∧ u'.rawPath = u.rawPath := by
  unfold setFragment at h
  split at h
  · cases h
  · cases h; exact ⟨rfl, rfl, rfl, rfl, rfl⟩

/-- … and `Parse`, which has cut the fragment off first -/
theorem Parse_props (raw : Bytes) (p : URL) (h : Net.Parse raw = some p) :
    toLowerAscii p.scheme = p.scheme ∧
    (p.opaq ≠ [] → OpaqOK p.opaq ∧ p.host = [] ∧ p.path = [] ∧ p.scheme ≠ []) := by
  unfold Net.Parse at h
  simp only at h
  split at h
  · cases h
  · next url hu =>
    obtain ⟨h1, h2⟩ := parse_props _ _ _ hu
    have h35 : (35 : UInt8) ∉ (cut raw 35).1 := (cut_fst_sub raw 35).2
    have key : toLowerAscii url.scheme = url.scheme ∧
        (url.opaq ≠ [] → OpaqOK url.opaq ∧ url.host = [] ∧ url.path = [] ∧ url.scheme ≠ []) := by
      refine ⟨h1, fun hne => ?_⟩
      obtain ⟨a, b, c, d, e, f, g⟩ := h2 hne
      exact ⟨⟨a, b, fun hm => h35 (c 35 hm), d⟩, e, f, g⟩
    split at h
    · cases h; exact key
    · obtain ⟨f1, f2, f3, f4, _⟩ := setFragment_fields _ _ _ h
      rw [f1, f2, f3, f4]; exact key

/-! ## the invariant of reachable URLs -/

structure RInv (u : URL) : Prop where
  lower : toLowerAscii u.scheme = u.scheme
  opaq : u.opaq ≠ [] → OpaqOK u.opaq ∧ isSpecialNetProtocol u.scheme = false
  path : cleanPath u.path u.scheme = u.path
  host : HostInv2 u

theorem fixURL_fields (u u' : URL) (h : fixURL u = .ok u') :
    u'.scheme = u.scheme ∧ u'.opaq = u.opaq ∧ u'.path = cleanPath u.path u.scheme ∧ u'.rawPath = u.rawPath := by
  rw [fixURL_eq] at h
  split at h
  · cases h
  · cases h
    unfold fixRawQuery
    split <;> exact ⟨rfl, rfl, rfl, rfl⟩

theorem normPort_fields (u : URL) :
    (normPort u).scheme = u.scheme ∧ (normPort u).opaq = u.opaq ∧ (normPort u).path = u.path ∧
    (normPort u).rawPath = u.rawPath := by
  unfold normPort
  split
  · split
    · exact ⟨rfl, rfl, rfl, rfl⟩
    · split <;> exact ⟨rfl, rfl, rfl, rfl⟩
  · exact ⟨rfl, rfl, rfl, rfl⟩

theorem dropDefaultPort_fields (u : URL) :
    (dropDefaultPort u).scheme = u.scheme ∧ (dropDefaultPort u).opaq = u.opaq ∧ (dropDefaultPort u).path = u.path ∧
    (dropDefaultPort u).rawPath = u.rawPath := by
  unfold dropDefaultPort
  split
  · split <;> exact ⟨rfl, rfl, rfl, rfl⟩
  · exact ⟨rfl, rfl, rfl, rfl⟩

theorem setURLPort_fields (u : URL) (v : PortArg) :
    (setURLPort u v).scheme = u.scheme ∧ (setURLPort u v).opaq = u.opaq ∧ (setURLPort u v).path = u.path ∧
    (setURLPort u v).rawPath = u.rawPath := by
  unfold setURLPort
  split
  · exact ⟨rfl, rfl, rfl, rfl⟩
  · split
    split
    · exact ⟨rfl, rfl, rfl, rfl⟩
    · split
      · exact ⟨rfl, rfl, rfl, rfl⟩
      · split <;> exact ⟨rfl, rfl, rfl, rfl⟩

/-- `RInv` after `fixURL` -/
theorem fixURL_rinv (u u' : URL) (w opt : Bytes) (hf : fixURL u = .ok u') (hl : toLowerAscii u.scheme = u.scheme)
    (ho : u.opaq ≠ [] → OpaqOK u.opaq ∧ isSpecialNetProtocol u.scheme = false)
    (hd : Decomp u.host w opt) (hb : BrOK w) (hp : PortOK u.scheme opt) : RInv u' := by
  obtain ⟨f1, f2, f3, _⟩ := fixURL_fields u u' hf
  exact ⟨by rw [f1]; exact hl, by rw [f1, f2]; exact ho, by rw [f1, f3]; exact cleanPath_idem _ _,
    fixURL_hostInv2 u u' w opt hf hd hb hp⟩

theorem normalizeURL_rinv (v u' : URL) (h : normalizeURL v = .ok u') (hl : toLowerAscii v.scheme = v.scheme)
    (ho : v.opaq ≠ [] → OpaqOK v.opaq ∧ v.host = [] ∧ v.path = [])
    (hpre : PreB v.host ∨ ∃ w opt, Decomp v.host w opt ∧ BrOK w) : RInv u' := by
  have hhost := normalizeURL_hostInv2 v u' h hpre
  rw [normalizeURL_eq] at h
  split at h
  · cases h
  next hc1 =>
  split at h
  · cases h
  obtain ⟨g1, g2, g3, _⟩ := normPort_fields v
  obtain ⟨f1, f2, f3, _⟩ := fixURL_fields _ u' h
  refine ⟨by rw [f1, g1]; exact hl, ?_, by rw [f1, f3]; exact cleanPath_idem _ _, hhost⟩
  rw [f1, f2, g1, g2]
  intro hne
  obtain ⟨h1, h2, h3⟩ := ho hne
  refine ⟨h1, ?_⟩
  cases hs : isSpecialNetProtocol v.scheme with
  | false => rfl
  | true => simp [hs, h2, h3] at hc1

theorem rinv_hostinv2_decomp (u : URL) (h : HostInv2 u) : ∃ w opt, Decomp u.host w opt ∧ BrOK w := by
  obtain ⟨w, opt, hd, _, _, hb, _⟩ := h; exact ⟨w, opt, hd, hb⟩

theorem parseURL_rinv (s : Bytes) (b : Bool) (u : URL) (hp : parseURL s b = .ok u) : RInv u := by
  unfold parseURL at hp
  split at hp
  · cases hp
  · next p hpp =>
    split at hp
    · cases hp
    · obtain ⟨h1, h2⟩ := Parse_props s p hpp
      exact normalizeURL_rinv _ _ hp h1 (fun hne => ⟨(h2 hne).1, (h2 hne).2.1, (h2 hne).2.2.1⟩)
        (Or.inl (Parse_preB _ _ hpp))

theorem setPath_getD_fields (u : URL) (p : Bytes) :
    ((setPath u p).getD u).scheme = u.scheme ∧ ((setPath u p).getD u).opaq = u.opaq ∧
    ((setPath u p).getD u).host = u.host := by
  cases h : setPath u p with
  | none => exact ⟨rfl, rfl, rfl⟩
  | some u' =>
    have := setPath_fields u u' p h
    exact ⟨this.1, this.2, setPath_host u u' p h⟩

/-- scheme and opaque part of a resolved relative reference -/
theorem resolveReference_fields (u ref : URL) (hs : ref.scheme = []) (ho : ref.opaq = []) :
    (resolveReference u ref).scheme = u.scheme ∧
    ((resolveReference u ref).opaq = [] ∨
      ((resolveReference u ref).opaq = u.opaq ∧ (resolveReference u ref).host = [] ∧ (resolveReference u ref).path = [])) := by
  unfold resolveReference
  have hs' : (ref.scheme == []) = true := by simp [hs]
  have hs'' : (ref.scheme != []) = false := by simp [hs]
  have ho' : (ref.opaq != []) = false := by simp [ho]
  simp only [hs', if_true, hs'', Bool.false_or, ho', Bool.false_eq_true, if_false]
  split
  · obtain ⟨a, b, _⟩ := setPath_getD_fields { ref with scheme := u.scheme } (resolvePath ref.escapedPath [])
    exact ⟨a, Or.inl (by rw [b]; exact ho)⟩
  · split
    · split
      · split <;> exact ⟨rfl, Or.inr ⟨rfl, rfl, rfl⟩⟩
      · exact ⟨rfl, Or.inr ⟨rfl, rfl, rfl⟩⟩
    · split
      · split
        · obtain ⟨a, b, _⟩ := setPath_getD_fields _ (resolvePath u.escapedPath ref.escapedPath)
          exact ⟨a, Or.inl (by rw [b]; exact ho)⟩
        · obtain ⟨a, b, _⟩ := setPath_getD_fields _ (resolvePath u.escapedPath ref.escapedPath)
          exact ⟨a, Or.inl (by rw [b]; exact ho)⟩
      · obtain ⟨a, b, _⟩ := setPath_getD_fields _ (resolvePath u.escapedPath ref.escapedPath)
        exact ⟨a, Or.inl (by rw [b]; exact ho)⟩

theorem construct_rinv (s : Bytes) (base : Option Bytes) (u : URL) (h : construct s base = .ok u) : RInv u := by
  unfold construct at h
  split at h
  · exact parseURL_rinv _ _ _ h
  · simp only [bind, Except.bind] at h
    split at h
    · cases h
    · next baseU hb =>
      have hbi := parseURL_rinv _ _ _ hb
      split at h
      · cases h
      · next ref hr =>
        split at h
        · exact parseURL_rinv _ _ _ h
        · next habs =>
          have hrs : ref.scheme = [] := by
            unfold URL.isAbs at habs; simpa using habs
          obtain ⟨p1, p2⟩ := Parse_props s ref hr
          have hro : ref.opaq = [] := by
            cases ho : ref.opaq with
            | nil => rfl
            | cons c t => exact absurd hrs (p2 (by rw [ho]; simp)).2.2.2
          obtain ⟨r1, r2⟩ := resolveReference_fields baseU ref hrs hro
          refine normalizeURL_rinv _ _ h ?_ ?_ ?_
          · show toLowerAscii (resolveReference baseU ref).scheme = (resolveReference baseU ref).scheme
            rw [r1]; exact hbi.lower
          · show (resolveReference baseU ref).opaq ≠ [] → OpaqOK (resolveReference baseU ref).opaq ∧
              (resolveReference baseU ref).host = [] ∧ (resolveReference baseU ref).path = []
            intro hne
            rcases r2 with e | ⟨e1, e2, e3⟩
            · exact absurd e hne
            · rw [e1] at hne ⊢
              exact ⟨(hbi.opaq hne).1, e2, e3⟩
          · show PreB (resolveReference baseU ref).host ∨ ∃ w opt, Decomp (resolveReference baseU ref).host w opt ∧ BrOK w
            rcases resolveReference_host baseU ref with e | e | e
            · rw [e]; exact Or.inl (Parse_preB _ _ hr)
            · rw [e]; exact Or.inl preB_nil
            · rw [e]; exact Or.inr (rinv_hostinv2_decomp _ hbi.host)

/-- the scheme a `protocol` assignment would store -/
def protocolScheme (v : Bytes) : Bytes := toLowerAscii (cut v 58).1

theorem step_protocol2 (st st' : St) (v : Bytes) (h : step st (.set .protocol v) = .ok st') :
    st' = st ∨ ∃ u, (∃ p, ParseRequestURI (protocolScheme v ++ [58, 47, 47] ++ st.url.host) = some p ∧
        p.scheme = protocolScheme v) ∧
      (isSpecialNetProtocol (protocolScheme v) = true → st.url.opaq = []) ∧
      fixURL { st.url with scheme := protocolScheme v } = .ok u ∧ st' = { st with url := dropDefaultPort u } := by
  simp only [step, bind, Except.bind, pure, Except.pure, throw, throwThe, MonadExceptOf.throw] at h
  by_cases hna : hasNonAscii (cut v 58).fst = true
  · rw [if_pos hna] at h; cases h
  rw [if_neg hna] at h
  cases hpr : ParseRequestURI (toLowerAscii (cut v 58).fst ++ [58, 47, 47] ++ st.url.host) with
  | none =>
    simp only [hpr, Bool.and_false, Bool.false_eq_true, if_false] at h
    cases h; exact Or.inl rfl
  | some p =>
    simp only [hpr] at h
    by_cases hcond : (isSpecialProtocol st.url.scheme == isSpecialProtocol (toLowerAscii (cut v 58).fst) &&
        p.scheme == toLowerAscii (cut v 58).fst) = true
    · rw [if_pos hcond] at h
      have hparse : ∃ p, ParseRequestURI (protocolScheme v ++ [58, 47, 47] ++ st.url.host) = some p ∧
          p.scheme = protocolScheme v := by
        simp only [Bool.and_eq_true, beq_iff_eq] at hcond
        exact ⟨p, hpr, hcond.2⟩
      by_cases hsn : isSpecialNetProtocol (toLowerAscii (cut v 58).fst) = true
      · rw [if_pos hsn] at h
        by_cases hop : st.url.opaq = []
        · generalize (if (st.url.opaq == []) = true then validHost (toLowerAscii (cut v 58).fst) st.url.host
                else Except.ok false) = w at h
          cases w with
          | error e => cases h
          | ok b =>
            cases b with
            | false => simp at h; exact Or.inl h.symm
            | true =>
              simp only [if_true] at h
              generalize hf : fixURL _ = f at h
              cases f with
              | error e => cases h
              | ok u => simp only [Except.ok.injEq] at h; exact Or.inr ⟨u, hparse, fun _ => hop, hf, h.symm⟩
        · have : (st.url.opaq == []) = false := by simpa using hop
          simp [this] at h
          exact Or.inl h.symm
      · rw [if_neg hsn] at h
        simp only [if_true] at h
        generalize hf : fixURL _ = f at h
        cases f with
        | error e => cases h
        | ok u =>
          simp only [Except.ok.injEq] at h
          exact Or.inr ⟨u, hparse, fun hs => absurd hs hsn, hf, h.symm⟩
    · rw [if_neg hcond] at h
      cases h; exact Or.inl rfl

theorem rinv_congr_host (u u' : URL) (hi : RInv u) (hs : u'.scheme = u.scheme) (ho : u'.opaq = u.opaq)
    (hp : u'.path = u.path) (hh : HostInv2 u') : RInv u' :=
  ⟨by rw [hs]; exact hi.lower, by rw [hs, ho]; exact hi.opaq, by rw [hs, hp]; exact hi.path, hh⟩

theorem hostInv2_congr (u u' : URL) (hh : u'.host = u.host) (hs : u'.scheme = u.scheme) (h : HostInv2 u) : HostInv2 u' := by
  unfold HostInv2 at *
  rw [hh, hs]; exact h

theorem rinv_step (st st' : St) (op : Op) (hi : RInv st.url) (h : step st op = .ok st') : RInv st'.url := by
  cases op with
  | set p v =>
    cases p with
    | href =>
      simp only [step, bind, Except.bind, pure, Except.pure] at h
      generalize hp : parseURL v true = r at h
      cases r with
      | error e => cases h
      | ok u =>
        simp only [Except.ok.injEq] at h
        subst h
        have hu := parseURL_rinv _ _ _ hp
        unfold St.refreshParams
        split <;> exact hu
    | protocol =>
      rcases step_protocol2 st st' v h with e | ⟨u, _, hop, hf, e⟩
      · rw [e]; exact hi
      · subst e
        obtain ⟨w, opt, hd, hne, hpo, hb, hw⟩ := hi.host
        obtain ⟨f1, f2, f3, _⟩ := fixURL_fields _ u hf
        obtain ⟨d1, d2, d3, _⟩ := dropDefaultPort_fields u
        obtain ⟨w', opt', h1, h2, h3, h4, h5, h6⟩ := fixURL_decomp2 _ u w opt hf hd hb
        refine ⟨?_, ?_, ?_, ?_⟩
        · show toLowerAscii (dropDefaultPort u).scheme = (dropDefaultPort u).scheme
          rw [d1, f1]; exact toLowerAscii_idem _
        · show (dropDefaultPort u).opaq ≠ [] → _
          rw [d1, d2, f1, f2]
          intro hne'
          refine ⟨(hi.opaq hne').1, ?_⟩
          cases hs : isSpecialNetProtocol (protocolScheme v) with
          | false => rfl
          | true => exact absurd (hop hs) hne'
        · show cleanPath (dropDefaultPort u).path (dropDefaultPort u).scheme = (dropDefaultPort u).path
          rw [d1, d3, f1, f3]; exact cleanPath_idem _ _
        · apply dropDefaultPort_hostInv2 u w' opt' h1 h2 _ h4 (by rw [h6]; exact h5)
          rw [h3]; exact hpo.2
    | host =>
      rcases step_host st st' v h with e | ⟨hv, u, hf, e⟩
      · rw [e]; exact hi
      · subst e
        obtain ⟨p, hp, hph, hvc, hnum⟩ := validHost_ok2 _ _ hv
        obtain ⟨w, opt, hd, hb⟩ := decomp_of_valid2 p hvc (ParseRequestURI_preB _ _ hp)
        have hpp : p.port = opt.drop 1 := by rw [port_eq, hd.1]; exact (decomp_port w opt hd.2.1 hd.2.2).1
        rw [hph] at hd
        obtain ⟨f1, f2, f3, _⟩ := fixURL_fields _ u hf
        obtain ⟨d1, d2, d3, _⟩ := dropDefaultPort_fields u
        obtain ⟨w', opt', h1, h2, h3, h4, h5, h6⟩ := fixURL_decomp2 _ u w opt hf hd hb
        refine ⟨?_, ?_, ?_, ?_⟩
        · show toLowerAscii (dropDefaultPort u).scheme = (dropDefaultPort u).scheme
          rw [d1, f1]; exact hi.lower
        · show (dropDefaultPort u).opaq ≠ [] → _
          rw [d1, d2, f1, f2]; exact hi.opaq
        · show cleanPath (dropDefaultPort u).path (dropDefaultPort u).scheme = (dropDefaultPort u).path
          rw [d1, d3, f1, f3]; exact cleanPath_idem _ _
        · apply dropDefaultPort_hostInv2 u w' opt' h1 h2 _ h4 (by rw [h6]; exact h5)
          rw [h3, ← hpp]; exact hnum
    | hostname =>
      rcases step_hostname st st' v h with e | ⟨hc, hv, u, hf, e⟩
      · rw [e]; exact hi
      · subst e
        obtain ⟨w, opt, hd, hne, hpo, hb, hw⟩ := hi.host
        have hport : st.url.port = opt.drop 1 := by
          rw [port_eq, hd.1]; exact (decomp_port w opt hd.2.1 hd.2.2).1
        have hgw : GoodW v := Or.inl (by simpa using hc)
        -- a bracketed hostname ends with `]` (it was accepted by `ParseRequestURI`)
        have hbv : BrOK v := by
          intro hpre
          obtain ⟨p, hp, hph, _, _⟩ := validHost_ok2 _ _ hv
          have hpb := ParseRequestURI_preB _ _ hp
          rw [hph] at hpb
          obtain ⟨X, o, e, ho⟩ := hpb hpre
          rcases validOptionalPort_cases o ho with e1 | ⟨ds, e1, _⟩
          · subst e1; rw [e]; simp
          · subst e1
            exfalso
            have : (58 : UInt8) ∈ v := by rw [e]; simp
            simp [this] at hc
        by_cases hpn : st.url.port = []
        · exact fixURL_rinv _ u v [] hf hi.lower hi.opaq ⟨by simp [hpn], hgw, rfl⟩ hbv (portOK_nil _)
        · have hdig : st.url.port.all isDigit = true := (portOf_spec _).1
          refine fixURL_rinv _ u v (58 :: st.url.port) hf hi.lower hi.opaq
            ⟨by simp [hpn], hgw, by rw [validOptionalPort_cons]; exact hdig⟩ hbv ?_
          unfold PortOK at hpo ⊢
          simp only [List.drop_succ_cons, List.drop_zero]
          rw [hport]; exact hpo
    | search =>
      simp only [step, pure, Except.pure, Except.ok.injEq] at h
      subst h
      have : RInv (fixRawQuery { st.url with rawQuery := trimPrefix v [63] }) := by
        have hx := fixRawQuery_host { st.url with rawQuery := trimPrefix v [63] }
        refine rinv_congr_host st.url _ hi hx.2 ?_ ?_ (hostInv2_congr st.url _ hx.1 hx.2 hi.host)
        · unfold fixRawQuery; split <;> rfl
        · unfold fixRawQuery; split <;> rfl
      unfold St.refreshParams
      split <;> exact this
    | port =>
      simp only [step, pure, Except.pure, Except.ok.injEq] at h
      subst h
      obtain ⟨a, b, c, _⟩ := setURLPort_fields st.url (.str v)
      exact rinv_congr_host st.url _ hi a b c (setURLPort_hostInv2 _ _ hi.host)
    | pathname =>
      simp only [step, pure, Except.pure, Except.ok.injEq] at h
      subst h
      exact ⟨hi.lower, hi.opaq, cleanPath_idem _ _, hostInv2_congr st.url _ rfl rfl hi.host⟩
    | username | password | hash =>
      simp only [step, pure, Except.pure, Except.ok.injEq] at h
      subst h
      exact rinv_congr_host st.url _ hi rfl rfl rfl (hostInv2_congr st.url _ rfl rfl hi.host)
  | setPort v =>
    simp only [step, pure, Except.pure, Except.ok.injEq] at h
    subst h
    obtain ⟨a, b, c, _⟩ := setURLPort_fields st.url v
    exact rinv_congr_host st.url _ hi a b c (setURLPort_hostInv2 _ _ hi.host)
  | getSP =>
    simp only [step, pure, Except.pure] at h
    split at h <;> cases h <;> exact hi
  | spAppend k v | spDelete k v | spSet k v | spSort =>
    simp only [step, pure, Except.pure, Except.ok.injEq] at h
    subst h
    unfold St.markUpdated
    split <;> exact rinv_congr_host st.url _ hi rfl rfl rfl (hostInv2_congr st.url _ rfl rfl hi.host)

theorem sync_url_fields (st : St) :
    st.sync.url.host = st.url.host ∧ st.sync.url.scheme = st.url.scheme ∧ st.sync.url.opaq = st.url.opaq ∧
    st.sync.url.path = st.url.path ∧ st.sync.url.rawPath = st.url.rawPath := by
  rcases sync_cases st with ⟨e, _⟩ | ⟨l, _, _, _, e⟩ <;> rw [e] <;> exact ⟨rfl, rfl, rfl, rfl, rfl⟩

theorem rinv_sync (st : St) (hi : RInv st.url) : RInv st.sync.url := by
  obtain ⟨a, b, c, d, _⟩ := sync_url_fields st
  exact rinv_congr_host st.url _ hi b c d (hostInv2_congr st.url _ a b hi.host)

theorem rinv_reach (st : St) (h : Reach st) : RInv st.url := by
  induction h with
  | ctor s base u hc => exact construct_rinv s base u hc
  | step st st' op _ hs ih => exact rinv_step st st' op ih hs
  | read st _ ih => exact rinv_sync st ih

/-! ## from the invariants to the layout and normal-form conditions -/

/-- an ASCII host none of whose bytes needs escaping (no `%`, no space, no IDN, no zone id) -/
def HostSimple (h : Bytes) : Prop := ∀ c ∈ h, c < 128 ∧ shouldEscape c .host = false

theorem hostSimple_escape (h : Bytes) (hs : HostSimple h) : Net.escape .host h = h := by
  induction h with
  | nil => rfl
  | cons c t ih =>
    have hc := hs c (by simp)
    have ht : HostSimple t := fun x hx => hs x (List.mem_cons_of_mem _ hx)
    unfold Net.escape at ih ⊢
    rw [List.flatMap_cons, ih ht]
    unfold Net.escByte
    simp [hc.2]

theorem hostSimple_no_percent (h : Bytes) (hs : HostSimple h) : (37 : UInt8) ∉ h := by
  intro hm
  have := (hs 37 hm).2
  revert this; decide

theorem ok_host_cons (c : UInt8) (rest : Bytes) (h1 : c ≠ 37) (h2 : shouldEscape c .host = false) :
    unescapeOk .host (c :: rest) = unescapeOk .host rest := by
  rw [unescapeOk.eq_def]
  split <;> simp_all

theorem hostSimple_unescape (h : Bytes) (hs : HostSimple h) : Net.unescape .host h = some h := by
  have hok : unescapeOk .host h = true := by
    induction h with
    | nil => simp [unescapeOk]
    | cons c t ih =>
      have hc := hs c (by simp)
      have hne : c ≠ 37 := by intro e; subst e; exact hostSimple_no_percent _ hs (by simp)
      rw [ok_host_cons c t hne hc.2]
      exact ih (fun x hx => hs x (List.mem_cons_of_mem _ hx))
  unfold Net.unescape
  simp [hok, raw_host_plain h (hostSimple_no_percent h hs)]

theorem indexSub_go_none (sub : Bytes) (c : UInt8) (hsub : ∃ t, sub = c :: t) :
    ∀ (s : Bytes) (i : Nat), c ∉ s → indexSub.go sub s i = none := by
  obtain ⟨t, et⟩ := hsub
  intro s
  induction s with
  | nil => intro i _; simp [indexSub.go, et]
  | cons x xs ih =>
    intro i hx
    have hxc : x ≠ c := by intro e; subst e; simp at hx
    have : sub.isPrefixOf (x :: xs) = false := by
      rw [et]; simp [List.isPrefixOf]; intro e; exact absurd e.symm hxc
    simp only [indexSub.go, this, Bool.false_eq_true, if_false]
    exact ih (i + 1) (fun hm => hx (List.mem_cons_of_mem _ hm))

theorem indexSub_none (s : Bytes) (h : (37 : UInt8) ∉ s) : indexSub s [37, 50, 53] = none := by
  unfold indexSub
  exact indexSub_go_none _ 37 ⟨_, rfl⟩ s 0 h

theorem parseHost_simple (h w opt : Bytes) (hs : HostSimple h) (hd : Decomp h w opt) (hb : BrOK w) :
    parseHost h = some h := by
  obtain ⟨e, hw, ho⟩ := hd
  have h37 := hostSimple_no_percent h hs
  unfold parseHost
  cases hp : hasPrefix h [91] with
  | true =>
    simp only [if_true]
    have hwp : hasPrefix w [91] = true := by
      cases w with
      | nil =>
        exfalso
        rw [e] at hp
        rcases validOptionalPort_cases opt ho with e1 | ⟨ds, e1, _⟩
        · subst e1; simp [hasPrefix] at hp
        · subst e1; simp [hasPrefix, List.isPrefixOf] at hp
      | cons c t =>
        rw [e] at hp
        simp only [List.cons_append] at hp
        rw [hasPrefix_cons1] at hp ⊢; exact hp
    obtain ⟨X, eX⟩ := List.getLast?_eq_some_iff.1 (hb hwp)
    have e2 : h = X ++ 93 :: opt := by rw [e, eX]; simp
    have h93 : (93 : UInt8) ∉ opt := by
      rcases validOptionalPort_cases opt ho with e1 | ⟨ds, e1, hds⟩
      · subst e1; simp
      · subst e1
        intro hm
        rcases List.mem_cons.1 hm with h' | h'
        · revert h'; decide
        · have := List.all_eq_true.1 hds 93 h'
          revert this; decide
    have hl : lastIndexByte h 93 = some X.length := by rw [e2]; exact lastIndexByte_append X opt 93 h93
    rw [hl]
    simp only
    have hdrop : h.drop (X.length + 1) = opt := by rw [e2]; simp
    have htake : h.take X.length = X := by rw [e2]; simp
    rw [hdrop, ho, htake]
    have : (37 : UInt8) ∉ X := by intro hm; apply h37; rw [e2]; simp [hm]
    simp only [Bool.not_true, Bool.false_eq_true, if_false, indexSub_none X this]
    exact hostSimple_unescape h hs
  | false =>
    simp only [Bool.false_eq_true, if_false]
    have hwp : hasPrefix w [91] = false := by
      cases hq : hasPrefix w [91] with
      | false => rfl
      | true => have := hasPrefix_append_left w opt hq; rw [← e, hp] at this; cases this
    have hwc : (58 : UInt8) ∉ w := by
      rcases hw with h' | ⟨h', _⟩
      · exact h'
      · rw [hwp] at h'; cases h'
    rcases validOptionalPort_cases opt ho with e1 | ⟨ds, e1, hds⟩
    · subst e1
      rw [List.append_nil] at e
      rw [e, lastIndexByte_eq_none w 58 hwc]
      simp only
      rw [← e]; exact hostSimple_unescape h hs
    · subst e1
      have hl : lastIndexByte h 58 = some w.length := by
        rw [e]; exact lastIndexByte_append w ds 58 (not_mem_of_all_digit ds hds)
      rw [hl]
      simp only
      have hdrop : h.drop w.length = 58 :: ds := by rw [e]; simp
      rw [hdrop, ho]
      simp only [Bool.not_true, Bool.false_eq_true, if_false]
      exact hostSimple_unescape h hs

theorem hostStr_simple (u : URL) (hs : HostSimple u.host) : hostStr u = u.host := by
  unfold hostStr
  split
  · exact hostSimple_escape _ hs
  · next h => simp at h; exact h.symm

theorem trim_id (w opt : Bytes) (hw : GoodW w) (ho : validOptionalPort opt = true) (hne : opt ≠ [58]) :
    trimSuffix (w ++ opt) [58] = w ++ opt := by
  rcases validOptionalPort_cases opt ho with e | ⟨ds, e, hd⟩
  · subst e
    rw [List.append_nil]
    have := hwp_of_noPortSuffix w (noPortSuffix_of_goodW w hw)
    unfold hwp at this
    rw [portOf_of_noPortSuffix w (noPortSuffix_of_goodW w hw)] at this
    simpa using this
  · subst e
    cases ds with
    | nil => exact absurd rfl hne
    | cons x d => exact trimSuffix_of_not _ _ (last_not_colon w d x hd)

theorem hostInv2_normOK (u : URL) (h : HostInv2 u) :
    validHostColons u = true ∧
    (u.port = [] ∨ ∃ n, atoi u.port = some n ∧ isDefaultURLPort u.scheme n = false) ∧
    (fixHost u.scheme u.host = .ok u.host ∨ fixHost u.scheme u.host = .error .noclaim) := by
  obtain ⟨w, opt, ⟨e, hw, ho⟩, hne, hpo, hb, hwn⟩ := h
  obtain ⟨hport, hhwp⟩ := decomp_port w opt hw ho
  refine ⟨?_, ?_, ?_⟩
  · unfold validHostColons
    rw [hostWithoutPort_eq, e, hhwp]
    rcases hw with h' | ⟨h', _⟩
    · simp [h']
    · simp [h']
  · rw [port_eq, e, hport]
    by_cases hp : opt.drop 1 = []
    · exact Or.inl hp
    · right
      have := hpo.2 hp
      cases ha : atoi (opt.drop 1) with
      | none => rw [ha] at this; cases this
      | some n => exact ⟨n, rfl, hpo.1 n ha⟩
  · unfold fixHost
    rw [e, trim_id w opt hw ho hne]
    simp only
    cases hp : hasPrefix (w ++ opt) [91] with
    | true =>
      simp only [if_true]
      have hwp : hasPrefix w [91] = true := by
        cases w with
        | nil =>
          exfalso
          rcases validOptionalPort_cases opt ho with e1 | ⟨ds, e1, _⟩
          · subst e1; simp [hasPrefix] at hp
          · subst e1; simp [hasPrefix, List.isPrefixOf] at hp
        | cons c t =>
          simp only [List.cons_append] at hp
          rw [hasPrefix_cons1] at hp ⊢; exact hp
      split
      · left
        rw [toLowerAscii_eq, List.map_append, ← toLowerAscii_eq, ← toLowerAscii_eq, toLowerAscii_opt opt ho,
          hwn.1 hwp]
      · right; rfl
    | false =>
      simp only [Bool.false_eq_true, if_false]
      have hwp : hasPrefix w [91] = false := by
        cases hq : hasPrefix w [91] with
        | false => rfl
        | true => have := hasPrefix_append_left w opt hq; rw [hp] at this; cases this
      have hwc : (58 : UInt8) ∉ w := by
        rcases hw with h' | ⟨h', _⟩
        · exact h'
        · rw [hwp] at h'; cases h'
      cases hsn : isSpecialNetProtocol u.scheme with
      | false => left; simp
      | true =>
        simp only [if_true]
        have hname : (splitHostPort (w ++ opt)).1 = w := by
          rcases validOptionalPort_cases opt ho with e1 | ⟨ds, e1, hds⟩
          · subst e1
            unfold splitHostPort
            rw [List.append_nil, lastIndexByte_eq_none w 58 hwc]
            simp [hwp]
          · subst e1
            unfold splitHostPort
            rw [lastIndexByte_append w ds 58 (not_mem_of_all_digit ds hds)]
            simp [validOptionalPort_cons, hds, hwp]
        rw [hname]
        rcases hwn.2 hwp hsn with h' | h'
        · left; rw [h']; simp
        · right; rw [h']

theorem lay_of_rinv (u : URL) (hi : RInv u) (hq : escapeQuery u.rawQuery = u.rawQuery)
    (hs : validScheme u.scheme = true) (hh : HostSimple u.host)
    (hr : u.rawPath = [] ∨ hasPrefix u.rawPath [47] = true) : Lay u := by
  refine ⟨hs, hi.lower, fun hne => (hi.opaq hne).1, ?_, hr, hq, ?_⟩
  · have := cleanPath_form u.path u.scheme
    rw [hi.path] at this
    rcases this with h | h
    · exact Or.inl h
    · exact Or.inr (cleanForm_shape _ h)
  · obtain ⟨w, opt, hd, _, _, hb, _⟩ := hi.host
    rw [hostStr_simple u hh]
    exact parseHost_simple _ w opt hh hd hb

theorem normOK_of_rinv (u : URL) (hi : RInv u) : NormOK u := by
  obtain ⟨h1, h2, h3⟩ := hostInv2_normOK u hi.host
  exact ⟨fun hne => (hi.opaq hne).2, hi.path, h1, h2, h3⟩

/-- **partial result**: in every reachable state whose scheme is a syntactically valid scheme, whose host is plain
ASCII without characters that need escaping (no `%`, no IDN, no IPv6 zone id) and whose stored raw path (if any) starts
with `/`, the shown `href` parses again (or leaves the punycode model) and yields the same `href` -/
theorem reparseStable_partial_simpleHost (st : St) (hr : Reach st) (hs : validScheme st.url.scheme = true)
    (hh : HostSimple st.url.host) (hraw : st.url.rawPath = [] ∨ hasPrefix st.url.rawPath [47] = true) :
    ReparseOK st := by
  obtain ⟨a, b, _, _, e⟩ := sync_url_fields st
  have hi := rinv_sync st (rinv_reach st hr)
  have hq := (qinv_sync st (qinv_reach st hr)).1
  apply reparseOK_of st
  · exact lay_of_rinv _ hi hq (by rw [b]; exact hs) (by rw [a]; exact hh) (by rw [e]; exact hraw)
  · exact normOK_of_rinv _ hi

/-! ## the stored raw path starts with `/` -/

/-- well-formed percent escapes (path mode) -/
def WF (s : Bytes) : Prop := unescapeOk .path s = true

theorem ok_path_cons (c : UInt8) (rest : Bytes) (h : c ≠ 37) : unescapeOk .path (c :: rest) = unescapeOk .path rest := by
  rw [unescapeOk.eq_def]
  split <;> simp_all

theorem ok_path_pct (x y : UInt8) (rest : Bytes) :
    unescapeOk .path (37 :: x :: y :: rest) = (isHex x && isHex y && unescapeOk .path rest) := by
  rw [unescapeOk]
  cases hx : isHex x <;> cases hy : isHex y <;> simp

theorem wf_nil : WF [] := by simp [WF, unescapeOk]

theorem wf_append_aux (b : Bytes) (hb : WF b) : ∀ (n : Nat) (a : Bytes), a.length ≤ n → WF a → WF (a ++ b) := by
  intro n
  induction n with
  | zero =>
    intro a ha _
    have : a = [] := List.eq_nil_of_length_eq_zero (by omega)
    subst this; exact hb
  | succ n ih =>
    intro a ha hwa
    cases a with
    | nil => exact hb
    | cons c t =>
      by_cases hc : c = 37
      · subst hc
        cases t with
        | nil => simp [WF, ok_pct_short1] at hwa
        | cons x t' =>
          cases t' with
          | nil => simp [WF, ok_pct_short2] at hwa
          | cons y t'' =>
            unfold WF at hwa ⊢
            simp only [List.cons_append]
            rw [ok_path_pct] at hwa ⊢
            simp only [Bool.and_eq_true] at hwa ⊢
            exact ⟨hwa.1, ih t'' (by simp at ha; omega) hwa.2⟩
      · unfold WF at hwa ⊢
        simp only [List.cons_append]
        rw [ok_path_cons c _ hc] at hwa ⊢
        exact ih t (by simp at ha; omega) hwa

theorem wf_append (a b : Bytes) (ha : WF a) (hb : WF b) : WF (a ++ b) :=
  wf_append_aux b hb a.length a (Nat.le_refl _) ha

theorem wf_cons_slash (t : Bytes) : WF (47 :: t) ↔ WF t := by
  unfold WF; rw [ok_path_cons 47 t (by decide)]

theorem wf_split_aux (b : Bytes) : ∀ (n : Nat) (a : Bytes), a.length ≤ n → WF (a ++ 47 :: b) → WF a ∧ WF b := by
  intro n
  induction n with
  | zero =>
    intro a ha h
    have : a = [] := List.eq_nil_of_length_eq_zero (by omega)
    subst this
    exact ⟨wf_nil, (wf_cons_slash b).1 h⟩
  | succ n ih =>
    intro a ha h
    cases a with
    | nil => exact ⟨wf_nil, (wf_cons_slash b).1 h⟩
    | cons c t =>
      by_cases hc : c = 37
      · subst hc
        cases t with
        | nil =>
          exfalso
          unfold WF at h
          simp only [List.cons_append, List.nil_append] at h
          cases b with
          | nil => simp [ok_pct_short2] at h
          | cons y b' => rw [ok_path_pct] at h; simp [isHex] at h
        | cons x t' =>
          cases t' with
          | nil =>
            exfalso
            unfold WF at h
            simp only [List.cons_append, List.nil_append] at h
            rw [ok_path_pct] at h; simp [isHex] at h
          | cons y t'' =>
            unfold WF at h ⊢
            simp only [List.cons_append] at h
            rw [ok_path_pct] at h ⊢
            simp only [Bool.and_eq_true] at h ⊢
            have := ih t'' (by simp at ha; omega) h.2
            exact ⟨⟨h.1, this.1⟩, this.2⟩
      · unfold WF at h ⊢
        simp only [List.cons_append] at h
        rw [ok_path_cons c _ hc] at h ⊢
        exact ih t (by simp at ha; omega) h

theorem wf_split (a b : Bytes) (h : WF (a ++ 47 :: b)) : WF a ∧ WF b :=
  wf_split_aux b a.length a (Nat.le_refl _) h

theorem wf_splitOn_aux : ∀ (n : Nat) (s : Bytes), s.length ≤ n → WF s → ∀ l ∈ splitOn 47 s, WF l := by
  intro n
  induction n with
  | zero =>
    intro s hs _ l hl
    have : s = [] := List.eq_nil_of_length_eq_zero (by omega)
    subst this
    simp [splitOn] at hl; subst hl; exact wf_nil
  | succ n ih =>
    intro s hs hw l hl
    by_cases h47 : (47 : UInt8) ∈ s
    · obtain ⟨a, b, e, ha⟩ := first_occurrence s 47 h47
      subst e
      rw [splitOn_append_sep 47 a b ha] at hl
      obtain ⟨wa, wb⟩ := wf_split a b hw
      rcases List.mem_cons.1 hl with e | hl'
      · subst e; exact wa
      · exact ih b (by simp at hs; omega) wb l hl'
    · rw [splitOn_no_sep 47 s h47] at hl
      simp only [List.mem_singleton] at hl
      subst hl; exact hw

theorem wf_splitOn (s : Bytes) (h : WF s) : ∀ l ∈ splitOn 47 s, WF l :=
  wf_splitOn_aux s.length s (Nat.le_refl _) h

/-- the loop invariant of `resolvePath` -/
def RJ (p : Bytes × Bool) : Prop := WF p.1 ∧ (∃ t, p.1 = 47 :: t) ∧ (p.2 = true → p.1 = [47])

theorem wf_take_last (t : Bytes) (i : Nat) (h : lastIndexByte t 47 = some i) (hw : WF t) : WF (t.take i) := by
  rcases lastIndexByte_cases t 47 with ⟨_, e⟩ | ⟨a, b, e, _, hl⟩
  · rw [e] at h; cases h
  · rw [hl] at h
    simp only [Option.some.injEq] at h
    subst h
    rw [e] at hw ⊢
    simp only [List.take_left']
    exact (wf_split a b hw).1

theorem resolveStep_rj (p : Bytes × Bool) (elem : Bytes) (hp : RJ p) (he : WF elem) : RJ (resolveStep p elem) := by
  obtain ⟨dst, first⟩ := p
  obtain ⟨hw, ⟨t, et⟩, hf⟩ := hp
  simp only at hw et hf
  unfold resolveStep
  simp only
  split
  · exact ⟨hw, ⟨t, et⟩, fun h => by cases h⟩
  · split
    · split
      · exact ⟨by simp [WF, unescapeOk], ⟨[], rfl⟩, fun _ => rfl⟩
      · next idx hidx =>
        refine ⟨?_, ⟨_, rfl⟩, ?_⟩
        · rw [wf_cons_slash]
          apply wf_take_last _ _ hidx
          rw [et]; simp only [List.drop_succ_cons, List.drop_zero]
          rw [et] at hw; exact (wf_cons_slash t).1 hw
        · intro hft
          have := hf hft
          rw [this] at hidx
          simp [lastIndexByte, indexByte] at hidx
    · refine ⟨?_, ?_, fun h => by cases h⟩
      · cases first with
        | true => simp only [Bool.not_true, Bool.false_eq_true, if_false]; exact wf_append _ _ hw he
        | false =>
          simp only [Bool.not_false, if_true]
          exact wf_append _ _ (wf_append _ _ hw (by simp [WF, unescapeOk])) he
      · cases first with
        | true => simp only [Bool.not_true, Bool.false_eq_true, if_false]; exact ⟨t ++ elem, by rw [et]; rfl⟩
        | false => simp only [Bool.not_false, if_true]; exact ⟨t ++ [47] ++ elem, by rw [et]; simp⟩

theorem foldl_resolveStep_rj : ∀ (elems : List Bytes) (p : Bytes × Bool), RJ p → (∀ e ∈ elems, WF e) →
    RJ (elems.foldl resolveStep p) := by
  intro elems
  induction elems with
  | nil => intro p hp _; exact hp
  | cons e t ih =>
    intro p hp he
    exact ih _ (resolveStep_rj p e hp (he e (by simp))) (fun x hx => he x (List.mem_cons_of_mem _ hx))

theorem resolvePath_wf (base ref : Bytes) (hb : WF base) (hr : WF ref) :
    WF (resolvePath base ref) ∧ (resolvePath base ref = [] ∨ hasPrefix (resolvePath base ref) [47] = true) := by
  unfold resolvePath
  simp only
  generalize hfull : (if ref == [] then base else if ref.head? != some 47 then
      (match lastIndexByte base 47 with
       | some i => base.take (i + 1)
       | none => []) ++ ref else ref) = full
  have hwf : WF full := by
    subst hfull
    split
    · exact hb
    · split
      · apply wf_append _ _ _ hr
        split
        · next i hi =>
          rcases lastIndexByte_cases base 47 with ⟨_, e⟩ | ⟨a, b, e, _, hl⟩
          · rw [e] at hi; cases hi
          · rw [hl] at hi
            simp only [Option.some.injEq] at hi
            subst hi
            rw [e] at hb ⊢
            have : List.take (a.length + 1) (a ++ 47 :: b) = a ++ [47] := by
              rw [show a ++ 47 :: b = (a ++ [47]) ++ b by simp, show a.length + 1 = (a ++ [47]).length by simp]
              exact List.take_left' rfl
            rw [this]
            exact wf_append _ _ (wf_split a b hb).1 (by simp [WF, unescapeOk])
        · exact wf_nil
      · exact hr
  split
  · exact ⟨wf_nil, Or.inl rfl⟩
  · have hj := foldl_resolveStep_rj (splitOn 47 full) ([47], true)
      ⟨by simp [WF, unescapeOk], ⟨[], rfl⟩, fun _ => rfl⟩ (wf_splitOn full hwf)
    obtain ⟨hw, ⟨t, et⟩, _⟩ := hj
    generalize hdst : (if ((splitOn 47 full).getLast?.getD [] == [46] || (splitOn 47 full).getLast?.getD [] == [46, 46]) = true
      then (List.foldl resolveStep ([47], true) (splitOn 47 full)).fst ++ [47]
      else (List.foldl resolveStep ([47], true) (splitOn 47 full)).fst) = dst
    have hd : WF dst ∧ ∃ t', dst = 47 :: t' := by
      subst hdst
      split
      · exact ⟨wf_append _ _ hw (by simp [WF, unescapeOk]), ⟨t ++ [47], by rw [et]; rfl⟩⟩
      · exact ⟨hw, ⟨t, et⟩⟩
    obtain ⟨hdw, t', et'⟩ := hd
    split
    · next hc =>
      rw [et'] at hc ⊢
      simp only [List.drop_succ_cons, List.drop_zero]
      cases t' with
      | nil => simp at hc
      | cons x t'' =>
        simp only [List.getD_cons_succ, List.getD_cons_zero, Bool.and_eq_true, beq_iff_eq] at hc
        rw [et'] at hdw
        refine ⟨(wf_cons_slash _).1 hdw, Or.inr ?_⟩
        rw [hc.2]; exact (hasPrefix_iff _ _).2 ⟨t'', rfl⟩
    · exact ⟨hdw, Or.inr (by rw [et']; exact (hasPrefix_iff _ _).2 ⟨t', rfl⟩)⟩

theorem wf_of_unescape (s r : Bytes) (h : Net.unescape .path s = some r) : WF s := (unescape_some _ _ _ h).1

theorem escapedPath_wf (u : URL) : WF u.escapedPath := by
  unfold URL.escapedPath
  split
  · next h =>
    simp only [Bool.and_eq_true, beq_iff_eq] at h
    exact wf_of_unescape _ _ h.2
  · split
    · simp [WF, unescapeOk]
    · exact (unescape_escape .path (Or.inl rfl) u.path).1

def RawOK (u : URL) : Prop := u.rawPath = [] ∨ hasPrefix u.rawPath [47] = true

theorem setPath_raw (u0 p : URL) (x : Bytes) (h : setPath u0 x = some p) :
    p.rawPath = [] ∨ (p.rawPath = x ∧ Net.unescape .path x = some p.path) := by
  unfold setPath at h
  split at h
  · cases h
  · next path hp =>
    cases h
    simp only
    split
    · exact Or.inl rfl
    · exact Or.inr ⟨rfl, hp⟩

theorem setPath_wf (u0 : URL) (x : Bytes) (h : WF x) : ∃ p, setPath u0 x = some p := by
  unfold setPath Net.unescape
  unfold WF at h
  simp [h]

theorem indexByte_some_drop (a : Bytes) (c : UInt8) (i : Nat) (h : indexByte a c = some i) :
    ∃ t, a.drop i = c :: t := by
  by_cases hm : c ∈ a
  · obtain ⟨x, y, e, hx⟩ := first_occurrence a c hm
    rw [e, indexByte_append x y c hx] at h
    simp only [Option.some.injEq] at h
    subst h
    exact ⟨y, by rw [e]; simp⟩
  · rw [indexByte_eq_none a c hm] at h; cases h

theorem parseTailV_raw (v : Bool) (scheme rest rq : Bytes) (fq : Bool) (p : URL)
    (h : parseTailV v scheme rest rq fq = some p) :
    (p.path = [] → p.rawPath = []) ∧ (scheme ≠ [] → RawOK p) := by
  have key : ∀ (u0 : URL) (x : Bytes), setPath u0 x = some p → (x = [] ∨ hasPrefix x [47] = true) →
      (p.path = [] → p.rawPath = []) ∧ RawOK p := by
    intro u0 x hs hx
    rcases setPath_raw u0 p x hs with e | ⟨e, hu⟩
    · exact ⟨fun _ => e, Or.inl e⟩
    · refine ⟨fun hp => ?_, ?_⟩
      · rw [hp] at hu
        have := unescape_some' _ _ _ hu
        rw [e]; exact unescapeRaw_nil_iff _ _ this.symm
      · rw [RawOK, e]; exact hx
  unfold parseTailV at h
  split at h
  · cases h; exact ⟨fun _ => rfl, fun _ => Or.inl rfl⟩
  split at h
  · cases h
  split at h
  · cases h
  split at h
  · simp only at h
    split at h
    · cases h
    · have := key _ _ h (by
        split
        · next i hi =>
          obtain ⟨t, et⟩ := indexByte_some_drop _ _ _ hi
          right; simp only; rw [et]; exact (hasPrefix_iff _ _).2 ⟨t, rfl⟩
        · exact Or.inl rfl)
      exact ⟨this.1, fun _ => this.2⟩
  · next h1 h2 h3 h4 =>
    rcases setPath_raw _ p rest h with e | ⟨e, hu⟩
    · exact ⟨fun _ => e, fun _ => Or.inl e⟩
    · refine ⟨fun hp => ?_, fun hs => ?_⟩
      · rw [hp] at hu
        have := unescape_some' _ _ _ hu
        rw [e]; exact unescapeRaw_nil_iff _ _ this.symm
      · rw [RawOK, e]
        right
        have hs' : (scheme != []) = true := by simpa using hs
        simp only [hs', Bool.and_true, Bool.not_eq_true'] at h1
        cases hp : hasPrefix rest [47] with
        | true => rfl
        | false => exact absurd hp (by simpa using h1)

theorem Parse_raw (raw : Bytes) (p : URL) (h : Net.Parse raw = some p) :
    (p.path = [] → p.rawPath = []) ∧ (p.scheme ≠ [] → RawOK p) := by
  unfold Net.Parse at h
  simp only at h
  split at h
  · cases h
  · next url hu =>
    have key : (url.path = [] → url.rawPath = []) ∧ (url.scheme ≠ [] → RawOK url) := by
      obtain ⟨_, hc⟩ := parse_eq_tailV _ _ _ hu
      rcases hc with e | ⟨scheme0, rest0, _, hc⟩
      · subst e; exact ⟨fun h => (by cases h), fun h => absurd rfl h⟩
      · rcases hc with ⟨_, _, ht⟩ | ht
        · have hs := (parseTailV_props _ _ _ _ _ _ ht).1
          have := parseTailV_raw _ _ _ _ _ _ ht
          exact ⟨this.1, fun hne => this.2 (by rw [← hs]; exact hne)⟩
        · have hs := (parseTailV_props _ _ _ _ _ _ ht).1
          have := parseTailV_raw _ _ _ _ _ _ ht
          exact ⟨this.1, fun hne => this.2 (by rw [← hs]; exact hne)⟩
    split at h
    · cases h; exact key
    · obtain ⟨f1, _, _, f4, f5⟩ := setFragment_fields _ _ _ h
      unfold RawOK at *
      rw [f1, f4, f5]; exact key

theorem setPath_getD_raw (u0 : URL) (x : Bytes) (hw : WF x) (hx : x = [] ∨ hasPrefix x [47] = true) :
    RawOK ((setPath u0 x).getD u0) := by
  obtain ⟨p, hp⟩ := setPath_wf u0 x hw
  rw [hp]
  simp only [Option.getD_some]
  rcases setPath_raw u0 p x hp with e | ⟨e, _⟩
  · exact Or.inl e
  · rw [RawOK, e]; exact hx

theorem resolveReference_raw (u ref : URL) (hs : ref.scheme = []) (ho : ref.opaq = [])
    (hr : ref.path = [] → ref.rawPath = []) : RawOK (resolveReference u ref) := by
  unfold resolveReference
  have hs' : (ref.scheme == []) = true := by simp [hs]
  have hs'' : (ref.scheme != []) = false := by simp [hs]
  have ho' : (ref.opaq != []) = false := by simp [ho]
  simp only [hs', if_true, hs'', Bool.false_or, ho', Bool.false_eq_true, if_false]
  have r1 := resolvePath_wf ref.escapedPath [] (escapedPath_wf ref) wf_nil
  have r2 := resolvePath_wf u.escapedPath ref.escapedPath (escapedPath_wf u) (escapedPath_wf ref)
  split
  · exact setPath_getD_raw _ _ r1.1 r1.2
  · split
    · next hc =>
      simp only [Bool.and_eq_true, beq_iff_eq] at hc
      have := hr hc.1
      split
      · split <;> exact Or.inl this
      · exact Or.inl this
    · split
      · split <;> exact setPath_getD_raw _ _ r2.1 r2.2
      · exact setPath_getD_raw _ _ r2.1 r2.2

theorem normalizeURL_raw (v u' : URL) (h : normalizeURL v = .ok u') : u'.rawPath = v.rawPath := by
  obtain ⟨_, hf⟩ := normalizeURL_ok v u' h
  rw [(fixURL_fields _ _ hf).2.2.2, (normPort_fields v).2.2.2]

theorem parseURL_raw (s : Bytes) (u : URL) (hp : parseURL s true = .ok u) : RawOK u := by
  unfold parseURL at hp
  split at hp
  · cases hp
  · next p hpp =>
    split at hp
    · cases hp
    · next habs =>
      have : p.scheme ≠ [] := by
        unfold URL.isAbs at habs; simpa using habs
      unfold RawOK
      rw [normalizeURL_raw _ _ hp]
      exact (Parse_raw s p hpp).2 this

theorem construct_raw (s : Bytes) (base : Option Bytes) (u : URL) (h : construct s base = .ok u) : RawOK u := by
  unfold construct at h
  split at h
  · exact parseURL_raw _ _ h
  · simp only [bind, Except.bind] at h
    split at h
    · cases h
    · next baseU hb =>
      split at h
      · cases h
      · next ref hr =>
        split at h
        · next habs =>
          -- an absolute reference
          unfold parseURL at h
          rw [hr] at h
          simp only [Bool.false_and, Bool.false_eq_true, if_false] at h
          have : ref.scheme ≠ [] := by unfold URL.isAbs at habs; simpa using habs
          unfold RawOK
          rw [normalizeURL_raw _ _ h]
          exact (Parse_raw s ref hr).2 this
        · next habs =>
          have hrs : ref.scheme = [] := by unfold URL.isAbs at habs; simpa using habs
          obtain ⟨_, p2⟩ := Parse_props s ref hr
          have hro : ref.opaq = [] := by
            cases ho : ref.opaq with
            | nil => rfl
            | cons c t => exact absurd hrs (p2 (by rw [ho]; simp)).2.2.2
          unfold RawOK
          rw [normalizeURL_raw _ _ h]
          exact resolveReference_raw baseU ref hrs hro (Parse_raw s ref hr).1

theorem raw_step (st st' : St) (op : Op) (hi : RawOK st.url) (h : step st op = .ok st') : RawOK st'.url := by
  cases op with
  | set p v =>
    cases p with
    | href =>
      simp only [step, bind, Except.bind, pure, Except.pure] at h
      generalize hp : parseURL v true = r at h
      cases r with
      | error e => cases h
      | ok u =>
        simp only [Except.ok.injEq] at h
        subst h
        have hu := parseURL_raw _ _ hp
        unfold St.refreshParams
        split <;> exact hu
    | protocol =>
      rcases step_protocol st st' v h with e | ⟨s, u, hf, e⟩
      · rw [e]; exact hi
      · subst e
        unfold RawOK
        rw [(dropDefaultPort_fields u).2.2.2, (fixURL_fields _ u hf).2.2.2]; exact hi
    | host =>
      rcases step_host st st' v h with e | ⟨_, u, hf, e⟩
      · rw [e]; exact hi
      · subst e
        unfold RawOK
        rw [(dropDefaultPort_fields u).2.2.2, (fixURL_fields _ u hf).2.2.2]; exact hi
    | hostname =>
      rcases step_hostname st st' v h with e | ⟨_, _, u, hf, e⟩
      · rw [e]; exact hi
      · subst e
        unfold RawOK
        rw [(fixURL_fields _ u hf).2.2.2]; exact hi
    | search =>
      simp only [step, pure, Except.pure, Except.ok.injEq] at h
      subst h
      have : RawOK (fixRawQuery { st.url with rawQuery := trimPrefix v [63] }) := by
        unfold RawOK fixRawQuery; split <;> exact hi
      unfold St.refreshParams
      split <;> exact this
    | port =>
      simp only [step, pure, Except.pure, Except.ok.injEq] at h
      subst h
      unfold RawOK
      rw [(setURLPort_fields st.url (.str v)).2.2.2]; exact hi
    | username | password | pathname | hash =>
      simp only [step, pure, Except.pure, Except.ok.injEq] at h
      subst h
      exact hi
  | setPort v =>
    simp only [step, pure, Except.pure, Except.ok.injEq] at h
    subst h
    unfold RawOK
    rw [(setURLPort_fields st.url v).2.2.2]; exact hi
  | getSP =>
    simp only [step, pure, Except.pure] at h
    split at h <;> cases h <;> exact hi
  | spAppend k v | spDelete k v | spSet k v | spSort =>
    simp only [step, pure, Except.pure, Except.ok.injEq] at h
    subst h
    unfold St.markUpdated
    split <;> exact hi

theorem raw_reach (st : St) (h : Reach st) : RawOK st.url := by
  induction h with
  | ctor s base u hc => exact construct_raw s base u hc
  | step st st' op _ hs ih => exact raw_step st st' op ih hs
  | read st _ ih =>
    show RawOK st.sync.url
    unfold RawOK; rw [(sync_url_fields st).2.2.2.2]; exact ih

/-- **partial result**: every reachable state with a syntactically valid scheme and a plain ASCII host
(no `%`, no IDN bytes, no IPv6 zone id) shows an `href` that parses again to the same `href` -/
theorem reparseStable_partial_validScheme_simpleHost (st : St) (hr : Reach st)
    (hs : validScheme st.url.scheme = true) (hh : HostSimple st.url.host) : ReparseOK st :=
  reparseStable_partial_simpleHost st hr hs hh (raw_reach st hr)

/-! ## the scheme stays valid when `protocol` is only assigned valid schemes -/

theorem getSchemeAux_valid (raw : Bytes) : ∀ (l pre : Bytes) (s rest : Bytes), raw = pre ++ l →
    (pre = [] ∨ validScheme pre = true) → getSchemeAux raw pre.length l = some (s, rest) →
    s = [] ∨ validScheme s = true := by
  intro l
  induction l with
  | nil =>
    intro pre s rest _ _ h
    simp only [getSchemeAux, Option.some.injEq, Prod.mk.injEq] at h
    exact Or.inl h.1.symm
  | cons c t ih =>
    intro pre s rest hraw hpre h
    have hraw' : raw = (pre ++ [c]) ++ t := by rw [hraw]; simp
    have hlen : (pre ++ [c]).length = pre.length + 1 := by simp
    unfold getSchemeAux at h
    split at h
    · next ha =>
      rw [← hlen] at h
      refine ih (pre ++ [c]) s rest hraw' (Or.inr ?_) h
      rcases hpre with e | hv
      · subst e; simp [validScheme, ha]
      · cases pre with
        | nil => simp [validScheme, ha]
        | cons p ps =>
          simp only [validScheme, Bool.and_eq_true, List.cons_append, List.all_append, List.all_cons, List.all_nil,
            Bool.and_true] at hv ⊢
          exact ⟨hv.1, hv.2, isAlpha_schemeTail c ha⟩
    · split at h
      · next hd =>
        split at h
        · simp only [Option.some.injEq, Prod.mk.injEq] at h; exact Or.inl h.1.symm
        · next hi =>
          rw [← hlen] at h
          refine ih (pre ++ [c]) s rest hraw' (Or.inr ?_) h
          cases pre with
          | nil => simp at hi
          | cons p ps =>
            rcases hpre with e | hv
            · cases e
            · simp only [validScheme, Bool.and_eq_true, List.cons_append, List.all_append, List.all_cons,
                List.all_nil, Bool.and_true] at hv ⊢
              refine ⟨hv.1, hv.2, ?_⟩
              unfold schemeTail
              simp only [Bool.or_eq_true] at hd ⊢
              rcases hd with ((hd | hd) | hd) | hd
              · exact Or.inl (Or.inl (Or.inl (Or.inr hd)))
              · exact Or.inl (Or.inl (Or.inr hd))
              · exact Or.inl (Or.inr hd)
              · exact Or.inr hd
      · split at h
        · split at h
          · cases h
          · next hi =>
            simp only [Option.some.injEq, Prod.mk.injEq] at h
            right
            rw [← h.1, hraw]
            simp only [List.take_left']
            rcases hpre with e | hv
            · subst e; simp at hi
            · exact hv
        · simp only [Option.some.injEq, Prod.mk.injEq] at h; exact Or.inl h.1.symm

theorem getScheme_valid' (raw s rest : Bytes) (h : getScheme raw = some (s, rest)) : s = [] ∨ validScheme s = true :=
  getSchemeAux_valid raw raw [] s rest rfl (Or.inl rfl) h

theorem lower_schemeTail_fin : ∀ n : Fin 256,
    ((!isAlpha (UInt8.ofNat n.val) || isAlpha (lowerByte (UInt8.ofNat n.val))) &&
    (!schemeTail (UInt8.ofNat n.val) || schemeTail (lowerByte (UInt8.ofNat n.val)))) = true := by decide +kernel

theorem validScheme_lower (s : Bytes) (h : validScheme s = true) : validScheme (toLowerAscii s) = true := by
  cases s with
  | nil => cases h
  | cons c t =>
    simp only [validScheme, Bool.and_eq_true] at h
    rw [toLowerAscii_eq, List.map_cons]
    simp only [validScheme, Bool.and_eq_true, List.all_map]
    have key := fun x => byte_all (fun x => (!isAlpha x || isAlpha (lowerByte x)) && (!schemeTail x || schemeTail (lowerByte x)))
      lower_schemeTail_fin x
    constructor
    · have := key c
      simp only [Bool.and_eq_true, Bool.or_eq_true, Bool.not_eq_true'] at this
      rcases this.1 with h0 | h0
      · rw [h.1] at h0; cases h0
      · exact h0
    · rw [List.all_eq_true] at h ⊢
      intro x hx
      have := key x
      simp only [Bool.and_eq_true, Bool.or_eq_true, Bool.not_eq_true'] at this
      rcases this.2 with h0 | h0
      · rw [h.2 x hx] at h0; cases h0
      · exact h0

theorem Parse_scheme (raw : Bytes) (p : URL) (h : Net.Parse raw = some p) : p.scheme = [] ∨ validScheme p.scheme = true := by
  unfold Net.Parse at h
  simp only at h
  split at h
  · cases h
  · next url hu =>
    have key : url.scheme = [] ∨ validScheme url.scheme = true := by
      obtain ⟨_, hc⟩ := parse_eq_tailV _ _ _ hu
      rcases hc with e | ⟨scheme0, rest0, hgs, hc⟩
      · subst e; exact Or.inl rfl
      · have hs : url.scheme = toLowerAscii scheme0 := by
          rcases hc with ⟨_, _, ht⟩ | ht
          · exact (parseTailV_props _ _ _ _ _ _ ht).1
          · exact (parseTailV_props _ _ _ _ _ _ ht).1
        rw [hs]
        rcases getScheme_valid' _ _ _ hgs with e | hv
        · subst e; exact Or.inl rfl
        · exact Or.inr (validScheme_lower _ hv)
    split at h
    · cases h; exact key
    · rw [(setFragment_fields _ _ _ h).1]; exact key

theorem normalizeURL_scheme (v u' : URL) (h : normalizeURL v = .ok u') : u'.scheme = v.scheme := by
  obtain ⟨_, hf⟩ := normalizeURL_ok v u' h
  rw [(fixURL_fields _ _ hf).1, (normPort_fields v).1]

theorem parseURL_scheme (s : Bytes) (u : URL) (hp : parseURL s true = .ok u) : validScheme u.scheme = true := by
  unfold parseURL at hp
  split at hp
  · cases hp
  · next p hpp =>
    split at hp
    · cases hp
    · next habs =>
      have hne : p.scheme ≠ [] := by unfold URL.isAbs at habs; simpa using habs
      rw [normalizeURL_scheme _ _ hp]
      exact (Parse_scheme s p hpp).resolve_left hne

theorem construct_scheme (s : Bytes) (base : Option Bytes) (u : URL) (h : construct s base = .ok u) :
    validScheme u.scheme = true := by
  unfold construct at h
  split at h
  · exact parseURL_scheme _ _ h
  · simp only [bind, Except.bind] at h
    split at h
    · cases h
    · next baseU hb =>
      split at h
      · cases h
      · next ref hr =>
        split at h
        · next habs =>
          unfold parseURL at h
          rw [hr] at h
          simp only [Bool.false_and, Bool.false_eq_true, if_false] at h
          have hne : ref.scheme ≠ [] := by unfold URL.isAbs at habs; simpa using habs
          rw [normalizeURL_scheme _ _ h]
          exact (Parse_scheme s ref hr).resolve_left hne
        · next habs =>
          have hrs : ref.scheme = [] := by unfold URL.isAbs at habs; simpa using habs
          obtain ⟨_, p2⟩ := Parse_props s ref hr
          have hro : ref.opaq = [] := by
            cases ho : ref.opaq with
            | nil => rfl
            | cons c t => exact absurd hrs (p2 (by rw [ho]; simp)).2.2.2
          rw [normalizeURL_scheme _ _ h]
          show validScheme (resolveReference baseU ref).scheme = true
          rw [(resolveReference_fields baseU ref hrs hro).1]
          exact parseURL_scheme _ _ hb

theorem ParseRequestURI_scheme (raw : Bytes) (p : URL) (h : ParseRequestURI raw = some p) :
    p.scheme = [] ∨ validScheme p.scheme = true := by
  unfold ParseRequestURI at h
  obtain ⟨_, hc⟩ := parse_eq_tailV _ _ _ h
  rcases hc with e | ⟨scheme0, rest0, hgs, hc⟩
  · subst e; exact Or.inl rfl
  · have hs : p.scheme = toLowerAscii scheme0 := by
      rcases hc with ⟨_, _, ht⟩ | ht
      · exact (parseTailV_props _ _ _ _ _ _ ht).1
      · exact (parseTailV_props _ _ _ _ _ _ ht).1
    rw [hs]
    rcases getScheme_valid' _ _ _ hgs with e | hv
    · subst e; exact Or.inl rfl
    · exact Or.inr (validScheme_lower _ hv)

theorem parse_colon_none (t : Bytes) (v : Bool) : Net.parse (58 :: t) v = none := by
  unfold Net.parse
  have hg : getScheme (58 :: t) = none := by
    simp [getScheme, getSchemeAux, isAlpha, isDigit]
  split
  · rfl
  · split
    · rfl
    · split
      · next h => simp at h
      · rw [hg]

theorem step_protocol3 (st st' : St) (v : Bytes) (h : step st (.set .protocol v) = .ok st') :
    st'.url.scheme = st.url.scheme ∨ validScheme st'.url.scheme = true := by
  rcases step_protocol2 st st' v h with e | ⟨u, ⟨p, hp, hps⟩, _, hf, e⟩
  · left; rw [e]
  · right
    subst e
    show validScheme (dropDefaultPort u).scheme = true
    rw [(dropDefaultPort_fields u).1, (fixURL_fields _ u hf).1]
    show validScheme (protocolScheme v) = true
    rcases ParseRequestURI_scheme _ _ hp with e | hv
    · exfalso
      rw [hps] at e
      rw [e] at hp
      simp only [List.nil_append, List.cons_append] at hp
      unfold ParseRequestURI at hp
      rw [parse_colon_none] at hp
      cases hp
    · rw [← hps]; exact hv

theorem step_scheme (st st' : St) (op : Op) (hv : validScheme st.url.scheme = true)
    (h : step st op = .ok st') : validScheme st'.url.scheme = true := by
  cases op with
  | set p v =>
    cases p with
    | href =>
      simp only [step, bind, Except.bind, pure, Except.pure] at h
      generalize hp : parseURL v true = r at h
      cases r with
      | error e => cases h
      | ok u =>
        simp only [Except.ok.injEq] at h
        subst h
        have hu := parseURL_scheme _ _ hp
        unfold St.refreshParams
        split <;> exact hu
    | protocol =>
      rcases step_protocol3 st st' v h with e | e
      · rw [e]; exact hv
      · exact e
    | host =>
      rcases step_host st st' v h with e | ⟨_, u, hf, e⟩
      · rw [e]; exact hv
      · subst e
        show validScheme (dropDefaultPort u).scheme = true
        rw [(dropDefaultPort_fields u).1, (fixURL_fields _ u hf).1]; exact hv
    | hostname =>
      rcases step_hostname st st' v h with e | ⟨_, _, u, hf, e⟩
      · rw [e]; exact hv
      · subst e
        show validScheme u.scheme = true
        rw [(fixURL_fields _ u hf).1]; exact hv
    | search =>
      simp only [step, pure, Except.pure, Except.ok.injEq] at h
      subst h
      have : validScheme (fixRawQuery { st.url with rawQuery := trimPrefix v [63] }).scheme = true := by
        rw [(fixRawQuery_host _).2]; exact hv
      unfold St.refreshParams
      split <;> exact this
    | port =>
      simp only [step, pure, Except.pure, Except.ok.injEq] at h
      subst h
      show validScheme (setURLPort st.url (.str v)).scheme = true
      rw [(setURLPort_fields st.url (.str v)).1]; exact hv
    | username | password | pathname | hash =>
      simp only [step, pure, Except.pure, Except.ok.injEq] at h
      subst h
      exact hv
  | setPort v =>
    simp only [step, pure, Except.pure, Except.ok.injEq] at h
    subst h
    show validScheme (setURLPort st.url v).scheme = true
    rw [(setURLPort_fields st.url v).1]; exact hv
  | getSP =>
    simp only [step, pure, Except.pure] at h
    split at h <;> cases h <;> exact hv
  | spAppend k v | spDelete k v | spSet k v | spSort =>
    simp only [step, pure, Except.pure, Except.ok.injEq] at h
    subst h
    unfold St.markUpdated
    split <;> exact hv

theorem scheme_reach (st : St) (h : Reach st) : validScheme st.url.scheme = true := by
  induction h with
  | ctor s base u hc => exact construct_scheme s base u hc
  | step st st' op _ hs ih => exact step_scheme st st' op ih hs
  | read st _ ih =>
    show validScheme st.sync.url.scheme = true
    rw [(sync_url_fields st).2.1]; exact ih

/-- **partial result**: every reachable state with a plain ASCII host (no `%`, no IDN bytes, no IPv6 zone id) shows an
`href` that parses again to the same `href` -/
theorem reparseStable_partial_simpleHostOnly (st : St) (hr : Reach st) (hh : HostSimple st.url.host) : ReparseOK st :=
  reparseStable_partial_validScheme_simpleHost st hr (scheme_reach st hr) hh

/-! ## hosts with `%` and non-ASCII bytes (not bracketed) -/

/-- a byte `parseHost` can produce outside a zone id -/
def legalB (c : UInt8) : Bool := !shouldEscape c .host || c ≥ 128 || c == 37

def HostLegal (h : Bytes) : Prop := h.all legalB = true

theorem ok_host_pct (x y : UInt8) (rest : Bytes) :
    unescapeOk .host (37 :: x :: y :: rest) =
      (isHex x && isHex y && !(unhex x < 8 && !(x == 50 && y == 53)) && unescapeOk .host rest) := by
  rw [unescapeOk]
  have h1 : (Mode.host == Mode.host) = true := rfl
  have h2 : (Mode.host == Mode.zone) = false := rfl
  simp only [h1, h2, Bool.true_and, Bool.false_and, Bool.false_eq_true, if_false]
  generalize (decide (unhex x < 8) && !(x == 50 && y == 53)) = c
  cases isHex x <;> cases isHex y <;> cases c <;> simp

/-- escaping then unescaping one legal byte -/
def escHostOK (c : UInt8) : Bool :=
  !legalB c ||
  (if shouldEscape c .host then
    isHex (hexU (c >>> 4)) && isHex (hexU (c &&& 15)) &&
      !(unhex (hexU (c >>> 4)) < 8 && !(hexU (c >>> 4) == 50 && hexU (c &&& 15) == 53)) &&
      (unhex (hexU (c >>> 4)) <<< 4 ||| unhex (hexU (c &&& 15))) == c
   else c != 37)

theorem escHostOK_fin : ∀ n : Fin 256, escHostOK (UInt8.ofNat n.val) = true := by decide +kernel

theorem unescape_escByte_host (c : UInt8) (hc : legalB c = true) (rest : Bytes) :
    unescapeOk .host (Net.escByte .host c ++ rest) = unescapeOk .host rest ∧
    unescapeRaw .host (Net.escByte .host c ++ rest) = c :: unescapeRaw .host rest := by
  have hk := byte_all escHostOK escHostOK_fin c
  unfold escHostOK at hk
  rw [hc] at hk
  simp only [Bool.not_true, Bool.false_or] at hk
  unfold Net.escByte
  have hq : (Mode.host == Mode.queryComponent) = false := rfl
  simp only [hq, Bool.and_false, Bool.false_eq_true, if_false]
  cases hs : shouldEscape c .host with
  | true =>
    simp only [hs, if_true, Bool.and_eq_true, beq_iff_eq] at hk
    simp only [if_true, List.cons_append, List.nil_append]
    rw [ok_host_pct, raw_pct]
    obtain ⟨⟨⟨h1, h2⟩, h3⟩, h4⟩ := hk
    rw [h1, h2, h3, h4]
    simp
  | false =>
    simp only [hs, Bool.false_eq_true, if_false, bne_iff_ne, ne_eq] at hk
    simp only [Bool.false_eq_true, if_false, List.cons_append, List.nil_append]
    refine ⟨ok_host_cons c rest hk hs, ?_⟩
    rw [raw_cons_ne _ c rest hk]
    unfold plusByte
    split
    · next e => subst e; rfl
    · rfl

theorem unescape_escape_host (h : Bytes) (hl : HostLegal h) :
    unescapeOk .host (Net.escape .host h) = true ∧ unescapeRaw .host (Net.escape .host h) = h := by
  induction h with
  | nil => simp [Net.escape, unescapeOk, unescapeRaw]
  | cons c t ih =>
    unfold HostLegal at hl
    simp only [List.all_cons, Bool.and_eq_true] at hl
    simp only [Net.escape, List.flatMap_cons] at *
    obtain ⟨e1, e2⟩ := unescape_escByte_host c hl.1 (List.flatMap (Net.escByte .host) t)
    have := ih hl.2
    rw [e1, e2, this.1, this.2]
    exact ⟨rfl, rfl⟩

theorem escByte_host_no_colon_fin : ∀ n : Fin 256, (UInt8.ofNat n.val == 58 ||
    (Net.escByte .host (UInt8.ofNat n.val)).all (· != 58)) = true := by decide +kernel

theorem escape_host_no_colon (w : Bytes) (h : (58 : UInt8) ∉ w) : (58 : UInt8) ∉ Net.escape .host w := by
  intro hm
  unfold Net.escape at hm
  obtain ⟨c, hc, hx⟩ := List.mem_flatMap.1 hm
  have := byte_all (fun c => c == 58 || (Net.escByte .host c).all (· != 58)) escByte_host_no_colon_fin c
  simp only [Bool.or_eq_true, beq_iff_eq] at this
  rcases this with e | e
  · subst e; exact h hc
  · have := List.all_eq_true.1 e 58 hx
    simp at this

theorem escape_append (m : Mode) (a b : Bytes) : Net.escape m (a ++ b) = Net.escape m a ++ Net.escape m b := by
  simp [Net.escape]

theorem opt_simple (opt : Bytes) (h : validOptionalPort opt = true) : HostSimple opt := by
  rcases validOptionalPort_cases opt h with e | ⟨ds, e, hd⟩
  · subst e; intro c hc; cases hc
  · subst e
    intro c hc
    rcases List.mem_cons.1 hc with e' | h'
    · subst e'; exact ⟨by decide, by decide⟩
    · have hdg := List.all_eq_true.1 hd c h'
      have := byte_all (fun c => !isDigit c || (decide (c < 128) && !shouldEscape c .host)) (by decide +kernel) c
      simp only [Bool.or_eq_true, Bool.not_eq_true', Bool.and_eq_true, decide_eq_true_eq] at this
      rcases this with h0 | h0
      · rw [hdg] at h0; cases h0
      · exact h0

theorem escape_host_head (h : Bytes) (hp : hasPrefix h [91] = false) : hasPrefix (Net.escape .host h) [91] = false := by
  cases h with
  | nil => rfl
  | cons c t =>
    rw [hasPrefix_cons1] at hp
    have hc : c ≠ 91 := by intro e; subst e; simp at hp
    simp only [Net.escape, List.flatMap_cons]
    unfold Net.escByte
    have hq : (Mode.host == Mode.queryComponent) = false := rfl
    simp only [hq, Bool.and_false, Bool.false_eq_true, if_false]
    split
    · simp only [List.cons_append]; rw [hasPrefix_cons1]; rfl
    · simp only [List.cons_append, List.nil_append]; rw [hasPrefix_cons1]; simpa using fun e => hc e.symm

/-- a legal host that is not bracketed survives `escape` + `parseHost` -/
theorem parseHost_legal (h w opt : Bytes) (hl : HostLegal h) (hp : hasPrefix h [91] = false) (hd : Decomp h w opt) :
    parseHost (Net.escape .host h) = some h := by
  obtain ⟨e, hw, ho⟩ := hd
  have hwp : hasPrefix w [91] = false := by
    cases hq : hasPrefix w [91] with
    | false => rfl
    | true => have := hasPrefix_append_left w opt hq; rw [← e, hp] at this; cases this
  have hwc : (58 : UInt8) ∉ w := by
    rcases hw with h' | ⟨h', _⟩
    · exact h'
    · rw [hwp] at h'; cases h'
  have hesc : Net.escape .host h = Net.escape .host w ++ opt := by
    rw [e, escape_append, hostSimple_escape opt (opt_simple opt ho)]
  have hun : Net.unescape .host (Net.escape .host h) = some h := by
    obtain ⟨h1, h2⟩ := unescape_escape_host h hl
    unfold Net.unescape; simp [h1, h2]
  have hcol := escape_host_no_colon w hwc
  unfold parseHost
  rw [escape_host_head h hp]
  simp only [Bool.false_eq_true, if_false]
  rcases validOptionalPort_cases opt ho with e1 | ⟨ds, e1, hds⟩
  · subst e1
    rw [List.append_nil] at hesc
    rw [hesc, lastIndexByte_eq_none _ 58 hcol]
    simp only
    rw [← hesc]; exact hun
  · subst e1
    have hl' : lastIndexByte (Net.escape .host h) 58 = some (Net.escape .host w).length := by
      rw [hesc]; exact lastIndexByte_append _ ds 58 (not_mem_of_all_digit ds hds)
    rw [hl']
    simp only
    have hdrop : (Net.escape .host h).drop (Net.escape .host w).length = 58 :: ds := by rw [hesc]; simp
    rw [hdrop, ho]
    simp only [Bool.not_true, Bool.false_eq_true, if_false]
    exact hun

/-! ### every host `Parse` returns, if not bracketed, is legal -/

theorem parseAuthority_pred (P : Bytes → Prop) (hP : ∀ a r, parseHost a = some r → P r)
    (a : Bytes) (u : Option User) (hst : Bytes) (h : parseAuthority a = some (u, hst)) : P hst := by
  unfold parseAuthority at h
  split at h
  · cases hp : parseHost a with
    | none => rw [hp] at h; cases h
    | some r =>
      rw [hp] at h
      simp only [Option.map_some, Option.some.injEq, Prod.mk.injEq] at h
      rw [← h.2]; exact hP a r hp
  · split at h
    · cases h
    · next host hp =>
      have hb := hP _ _ hp
      simp only at h
      split at h
      · cases h
      · split at h
        · cases hu : Net.unescape Mode.userPassword (List.take _ a) with
          | none => rw [hu] at h; cases h
          | some x =>
            rw [hu] at h
            simp only [Option.map_some, Option.some.injEq, Prod.mk.injEq] at h
            rw [← h.2]; exact hb
        · split at h
          · simp only [Option.some.injEq, Prod.mk.injEq] at h
            rw [← h.2]; exact hb
          · cases h

theorem parseTailV_pred (P : Bytes → Prop) (h0 : P []) (hP : ∀ a r, parseHost a = some r → P r)
    (v : Bool) (scheme rest rq : Bytes) (fq : Bool) (p : URL)
    (h : parseTailV v scheme rest rq fq = some p) : P p.host := by
  unfold parseTailV at h
  split at h
  · cases h; exact h0
  split at h
  · cases h
  split at h
  · cases h
  split at h
  · simp only at h
    split at h
    · cases h
    · next user host ha =>
      rw [setPath_host _ _ _ h]
      exact parseAuthority_pred P hP _ _ _ ha
  · rw [setPath_host _ _ _ h]; exact h0

theorem Parse_pred (P : Bytes → Prop) (h0 : P []) (hP : ∀ a r, parseHost a = some r → P r)
    (raw : Bytes) (p : URL) (h : Net.Parse raw = some p) : P p.host := by
  unfold Net.Parse at h
  simp only at h
  split at h
  · cases h
  · next url hu =>
    have key : P url.host := by
      obtain ⟨_, hc⟩ := parse_eq_tailV _ _ _ hu
      rcases hc with e | ⟨scheme0, rest0, _, hc⟩
      · subst e; exact h0
      · rcases hc with ⟨_, _, ht⟩ | ht
        · exact parseTailV_pred P h0 hP _ _ _ _ _ _ ht
        · exact parseTailV_pred P h0 hP _ _ _ _ _ _ ht
    split at h
    · cases h; exact key
    · rw [(setFragment_fields _ _ _ h).2.2.1]; exact key

theorem ParseRequestURI_pred (P : Bytes → Prop) (h0 : P []) (hP : ∀ a r, parseHost a = some r → P r)
    (raw : Bytes) (p : URL) (h : ParseRequestURI raw = some p) : P p.host := by
  unfold ParseRequestURI at h
  obtain ⟨_, hc⟩ := parse_eq_tailV _ _ _ h
  rcases hc with e | ⟨scheme0, rest0, _, hc⟩
  · subst e; exact h0
  · rcases hc with ⟨_, _, ht⟩ | ht
    · exact parseTailV_pred P h0 hP _ _ _ _ _ _ ht
    · exact parseTailV_pred P h0 hP _ _ _ _ _ _ ht

theorem nibble_ge_fin : ∀ hi : Fin 16, ∀ lo : Fin 256,
    (!decide (8 ≤ hi.val) || decide ((UInt8.ofNat hi.val <<< 4 ||| UInt8.ofNat lo.val) ≥ 128)) = true := by
  decide +kernel

theorem nibble_ge (hi lo : UInt8) (h1 : hi ≤ 15) (h2 : 8 ≤ hi) : (hi <<< 4 ||| lo) ≥ 128 := by
  have hlt : hi.toNat < 16 := by rw [UInt8.le_iff_toNat_le] at h1; simpa using Nat.lt_succ_of_le h1
  have h := nibble_ge_fin ⟨hi.toNat, hlt⟩ ⟨lo.toNat, lo.toNat_lt⟩
  simp only [UInt8.ofNat_toNat, Bool.or_eq_true, Bool.not_eq_true', decide_eq_false_iff_not, decide_eq_true_eq] at h
  rcases h with h | h
  · exfalso; apply h; rw [UInt8.le_iff_toNat_le] at h2; simpa using h2
  · exact h

theorem ok_host_cons_legal (c : UInt8) (t : Bytes) (hc : c ≠ 37) (hok : unescapeOk .host (c :: t) = true) :
    legalB c = true := by
  cases hl : legalB c with
  | true => rfl
  | false =>
    exfalso
    unfold legalB at hl
    simp only [Bool.or_eq_false_iff, Bool.not_eq_false', decide_eq_false_iff_not, beq_eq_false_iff_ne] at hl
    obtain ⟨⟨h1, h2⟩, _⟩ := hl
    have h43 : c ≠ 43 := by intro e; subst e; revert h1; decide
    have h128 : c < 128 := by simpa [UInt8.not_le] using h2
    rw [unescapeOk.eq_def] at hok
    split at hok
    · simp_all
    · simp_all
    · simp_all
    · next c' rest' _ _ heq =>
      simp only [List.cons.injEq] at heq
      obtain ⟨e1, e2⟩ := heq
      subst e1
      have h43' : (c != 43) = true := by simpa using h43
      have h128' : decide (c < 128) = true := by simpa using h128
      simp [h43', h128', h1] at hok

theorem unescape_host_legal_aux : ∀ (n : Nat) (a : Bytes), a.length ≤ n → unescapeOk .host a = true →
    HostLegal (unescapeRaw .host a) := by
  intro n
  induction n with
  | zero =>
    intro a ha _
    have : a = [] := List.eq_nil_of_length_eq_zero (by omega)
    subst this; simp [unescapeRaw, HostLegal]
  | succ n ih =>
    intro a ha hok
    cases a with
    | nil => simp [unescapeRaw, HostLegal]
    | cons c t =>
      by_cases hc : c = 37
      · subst hc
        cases t with
        | nil => simp [ok_pct_short1] at hok
        | cons x t' =>
          cases t' with
          | nil => simp [ok_pct_short2] at hok
          | cons y t'' =>
            rw [ok_host_pct] at hok
            simp only [Bool.and_eq_true, Bool.not_eq_true'] at hok
            obtain ⟨⟨⟨_, _⟩, hcond⟩, hrest⟩ := hok
            rw [raw_pct]
            unfold HostLegal
            simp only [List.all_cons, Bool.and_eq_true]
            refine ⟨?_, ih t'' (by simp at ha; omega) hrest⟩
            unfold legalB
            by_cases hlt : unhex x < 8
            · have h5 : (x == 50 && y == 53) = true := by simpa [hlt] using hcond
              simp only [Bool.and_eq_true, beq_iff_eq] at h5
              obtain ⟨hx, hy⟩ := h5
              subst hx; subst hy; decide
            · have := nibble_ge (unhex x) (unhex y) (unhex_le x) (by simpa [UInt8.not_lt] using hlt)
              simp [this]
      · have hok' := ok_cons_ne _ c t hc hok
        rw [raw_cons_ne _ c t hc]
        unfold HostLegal
        simp only [List.all_cons, Bool.and_eq_true]
        refine ⟨?_, ih t (by simp at ha; omega) hok'⟩
        have hb : legalB c = true := ok_host_cons_legal c t hc hok
        unfold plusByte
        split
        · next e => subst e; decide
        · exact hb

theorem unescape_host_legal (a r : Bytes) (h : Net.unescape .host a = some r) : HostLegal r := by
  obtain ⟨hok, e⟩ := unescape_some _ _ _ h
  rw [e]; exact unescape_host_legal_aux a.length a (Nat.le_refl _) hok

/-- hosts that are legal unless bracketed -/
def LegalH (h : Bytes) : Prop := hasPrefix h [91] = false → HostLegal h

theorem raw_head_bracket (m : Mode) (t : Bytes) : unescapeRaw m (91 :: t) = 91 :: unescapeRaw m t := by
  rw [raw_cons_ne m 91 t (by decide)]; rfl

theorem parseHost_legalH (a r : Bytes) (h : parseHost a = some r) : LegalH r := by
  intro hnp
  unfold parseHost at h
  split at h
  · next hpre =>
    -- a bracketed input gives a bracketed host
    exfalso
    obtain ⟨a', ea⟩ := (hasPrefix_iff _ _).1 hpre
    simp only [List.cons_append, List.nil_append] at ea
    rcases lastIndexByte_cases a 93 with ⟨_, e⟩ | ⟨A, opt, eA, _, e⟩
    · rw [e] at h; cases h
    · rw [e] at h
      simp only at h
      have hA : ∃ A', A = 91 :: A' := by
        cases A with
        | nil => rw [ea] at eA; simp at eA
        | cons x A' =>
          rw [ea] at eA
          simp only [List.cons_append, List.cons.injEq] at eA
          exact ⟨A', by rw [eA.1]⟩
      obtain ⟨A', eA'⟩ := hA
      have htake : a.take A.length = A := by rw [eA]; simp
      rw [htake] at h
      split at h
      · cases h
      · split at h
        · next zone hz =>
          split at h
          · next h1 h2 h3 hu1 hu2 hu3 =>
            cases h
            have e1 := (unescape_some _ _ _ hu1).2
            have e2 := (unescape_some _ _ _ hu2).2
            have : hasPrefix (h1 ++ h2 ++ h3) [91] = true := by
              cases zone with
              | zero =>
                simp only [List.take_zero, List.drop_zero] at e1 e2
                rw [e1, e2, eA', raw_head_bracket]
                simp [unescapeRaw, hasPrefix, List.isPrefixOf]
              | succ z =>
                rw [ea] at e1
                simp only [List.take_succ_cons] at e1
                rw [raw_head_bracket] at e1
                rw [e1]
                simp [hasPrefix, List.isPrefixOf]
            rw [hnp] at this; cases this
          · cases h
        · have e1 := (unescape_some _ _ _ h).2
          rw [ea, raw_head_bracket] at e1
          rw [e1] at hnp
          simp [hasPrefix, List.isPrefixOf] at hnp
  · split at h
    · split at h
      · cases h
      · exact unescape_host_legal a r h
    · exact unescape_host_legal a r h

theorem legalH_nil : LegalH [] := fun _ => by simp [HostLegal]

theorem Parse_legalH (raw : Bytes) (p : URL) (h : Net.Parse raw = some p) : LegalH p.host :=
  Parse_pred LegalH legalH_nil parseHost_legalH raw p h

theorem ParseRequestURI_legalH (raw : Bytes) (p : URL) (h : ParseRequestURI raw = some p) : LegalH p.host :=
  ParseRequestURI_pred LegalH legalH_nil parseHost_legalH raw p h

/-! ### `Idna.toASCII` keeps a host legal -/

theorem legalB_lowerByte_fin : ∀ n : Fin 256, (!legalB (UInt8.ofNat n.val) || legalB (lowerByte (UInt8.ofNat n.val))) = true := by
  decide +kernel

theorem legalB_lowerByte (c : UInt8) (h : legalB c = true) : legalB (lowerByte c) = true := by
  have := byte_all (fun c => !legalB c || legalB (lowerByte c)) legalB_lowerByte_fin c
  simp only [Bool.or_eq_true, Bool.not_eq_true'] at this
  rcases this with h0 | h0
  · rw [h] at h0; cases h0
  · exact h0

theorem lowerCp_small (n : Nat) (h : Idna.lowerCp n < 128) :
    n < 128 ∧ Idna.lowerCp n = if 65 ≤ n ∧ n ≤ 90 then n + 32 else n := by
  unfold Idna.lowerCp at h ⊢
  repeat' split at h
  all_goals simp only [Bool.and_eq_true, decide_eq_true_eq, bne_iff_ne, ne_eq] at *
  all_goals (constructor <;> (try split) <;> omega)

theorem lowerByte_toNat (c : UInt8) : (lowerByte c).toNat = if 65 ≤ c.toNat ∧ c.toNat ≤ 90 then c.toNat + 32 else c.toNat := by
  have := byte_all (fun c => (lowerByte c).toNat == if 65 ≤ c.toNat ∧ c.toNat ≤ 90 then c.toNat + 32 else c.toNat)
    (by decide +kernel) c
  simpa using this

theorem lowerCp_valid (n : Nat) (h : n.isValidChar) : (Idna.lowerCp n).isValidChar := by
  unfold Nat.isValidChar at h ⊢
  unfold Idna.lowerCp
  repeat' split
  all_goals simp only [Bool.and_eq_true, decide_eq_true_eq, bne_iff_ne, ne_eq] at *
  all_goals omega

theorem lowerHost_legal (w lh : Bytes) (h : Idna.lowerHost w = some lh) (hw : HostLegal w) : HostLegal lh := by
  unfold Idna.lowerHost at h
  split at h
  · cases h
    unfold HostLegal at hw ⊢
    rw [List.all_eq_true] at hw ⊢
    intro b hb
    obtain ⟨c, hc, e⟩ := List.mem_map.1 hb
    rw [← e]
    exact legalB_lowerByte c (hw c hc)
  · split at h
    · cases h
    · next cps hc =>
      split at h
      · cases h
        obtain ⟨cs, e1, e2⟩ := utf8Dec_bytes w cps hc
        unfold HostLegal at hw ⊢
        rw [List.all_eq_true] at hw ⊢
        intro b hb
        unfold Idna.utf8Enc at hb
        rw [utf8_bytes] at hb
        obtain ⟨d, hd, hx⟩ := List.mem_flatMap.1 hb
        obtain ⟨m, hm, e⟩ := List.mem_map.1 hd
        obtain ⟨n, hn, en⟩ := List.mem_map.1 hm
        by_cases hb128 : b.toNat < 128
        · -- an ASCII byte is the lower-cased image of an ASCII byte of `w`
          have hdn := memB_encodeChar b hb128 d hx
          have hnv : n.isValidChar := by
            rw [e1] at hn
            obtain ⟨c, _, ec⟩ := List.mem_map.1 hn
            rw [← ec]; exact c.valid
          have hmv : m.isValidChar := by rw [← en]; exact lowerCp_valid n hnv
          have hdm : d.toNat = m := by
            rw [← e]
            unfold Char.ofNat
            simp only [hmv, dite_true]
            rfl
          have hmb : m = b.toNat := by rw [← hdm]; exact hdn
          have hsm := lowerCp_small n (by rw [en, hmb]; exact hb128)
          obtain ⟨hmem, hv⟩ := basic_sub w cps hc n hn hsm.1
          have hleg := legalB_lowerByte _ (hw _ hmem)
          have : lowerByte n.toUInt8 = b := by
            apply UInt8.toNat_inj.1
            rw [lowerByte_toNat, hv, ← hmb, ← en, hsm.2]
          rw [← this]; exact hleg
        · unfold legalB
          have : b ≥ 128 := by
            rw [ge_iff_le, UInt8.le_iff_toNat_le]
            have : (128 : UInt8).toNat = 128 := rfl
            omega
          simp [this]
      · cases h

theorem digit_legal_fin : ∀ d : Fin 36, legalB (Idna.digit d.val) = true := by decide

theorem labelToASCII_legal (l a : Bytes) (h : Idna.labelToASCII l = .ok a) (hl : HostLegal l) : HostLegal a := by
  unfold Idna.labelToASCII at h
  split at h
  · cases h
  · split at h
    · cases h; exact hl
    · split at h
      · cases h
      · next cps hc =>
        split at h
        · cases h
          obtain ⟨t, e, ht⟩ := punyEncode_shape cps
          rw [e]
          unfold HostLegal at hl ⊢
          simp only [List.all_append, Bool.and_eq_true]
          refine ⟨⟨⟨by decide, ?_⟩, by split <;> decide⟩, ?_⟩
          · rw [List.all_eq_true] at hl ⊢
            intro b hb
            obtain ⟨n, hn, en⟩ := List.mem_map.1 hb
            rw [List.mem_filter] at hn
            have hlt : n < 128 := by simpa using hn.2
            rw [← en]
            exact hl _ (basic_sub l cps hc n hn.1 hlt).1
          · rw [List.all_eq_true]
            intro b hb
            obtain ⟨d, hd, e'⟩ := ht b hb
            rw [e']; exact digit_legal_fin ⟨d, hd⟩
        · cases h

theorem toASCII_legal (w ch : Bytes) (h : Idna.toASCII w = .ok ch) (hw : HostLegal w) : HostLegal ch := by
  obtain ⟨lh, as, hl, hlab, e⟩ := toASCII_structure w ch h
  have hlh := lowerHost_legal w lh hl hw
  unfold HostLegal at hlh ⊢
  rw [List.all_eq_true] at hlh ⊢
  intro b hb
  rw [e] at hb
  rcases mem_intercalate _ _ _ hb with hb | ⟨a, ha, hx⟩
  · simp only [List.mem_singleton] at hb; subst hb; decide
  · obtain ⟨l, hl', hr⟩ := lab_mem hlab a ha
    have hll : HostLegal l := by
      unfold HostLegal; rw [List.all_eq_true]
      intro x hx'; exact hlh x (mem_splitOn 46 lh l hl' x hx')
    have := labelToASCII_legal l a hr hll
    unfold HostLegal at this
    exact List.all_eq_true.1 this b hx

/-! ### the legality invariant -/

theorem hostLegal_sub (a b : Bytes) (h : ∀ c ∈ a, c ∈ b) (hb : HostLegal b) : HostLegal a := by
  unfold HostLegal at *
  rw [List.all_eq_true] at hb ⊢
  intro c hc; exact hb c (h c hc)

theorem hostLegal_append (a b : Bytes) (ha : HostLegal a) (hb : HostLegal b) : HostLegal (a ++ b) := by
  unfold HostLegal at *
  rw [List.all_append, ha, hb]; rfl

theorem trimSuffix_sub (s p : Bytes) : ∀ c ∈ trimSuffix s p, c ∈ s := by
  intro c hc
  unfold trimSuffix at hc
  split at hc
  · exact List.mem_of_mem_take hc
  · exact hc

theorem strip_sub (x : Bytes) : ∀ c ∈ (if hasPrefix x [91] && hasSuffix x [93] then (x.drop 1).dropLast else x), c ∈ x := by
  intro c hc
  split at hc
  · exact List.mem_of_mem_drop (List.dropLast_subset _ hc)
  · exact hc

theorem splitHostPort_sub (h : Bytes) : (∀ c ∈ (splitHostPort h).1, c ∈ h) ∧ (∀ c ∈ (splitHostPort h).2, c ∈ h) := by
  rcases lastIndexByte_cases h 58 with ⟨_, e⟩ | ⟨a, b, eh, _, e⟩
  · unfold splitHostPort
    rw [e]
    simp only
    exact ⟨strip_sub h, fun c hc => by cases hc⟩
  · unfold splitHostPort
    rw [e]
    simp only
    cases hv : validOptionalPort (List.drop a.length h) with
    | true =>
      simp only [if_true]
      exact ⟨fun c hc => List.mem_of_mem_take (strip_sub _ c hc), fun c hc => List.mem_of_mem_drop hc⟩
    | false =>
      simp only [Bool.false_eq_true, if_false]
      exact ⟨strip_sub h, fun c hc => by cases hc⟩

theorem hwp_sub (h : Bytes) : ∀ c ∈ hwp h, c ∈ h := by
  intro c hc
  unfold hwp at hc
  split at hc <;> exact trimSuffix_sub _ _ c hc

theorem trim_prefix (h : Bytes) (hp : hasPrefix h [91] = true) : hasPrefix (trimSuffix h [58]) [91] = true := by
  rcases trimSuffix_cases h [58] with ⟨_, e⟩ | ⟨_, e⟩
  · -- `h = t ++ ":"`
    generalize trimSuffix h [58] = t at e
    obtain ⟨r, er⟩ := (hasPrefix_iff _ _).1 hp
    cases t with
    | nil => rw [e] at er; simp at er
    | cons x t' =>
      rw [e] at er
      simp only [List.cons_append, List.nil_append, List.cons.injEq] at er
      rw [hasPrefix_cons1, er.1]; rfl
  · rw [e]; exact hp

theorem hwp_prefix (h : Bytes) (hp : hasPrefix h [91] = true) : hasPrefix (hwp h) [91] = true := by
  obtain ⟨opt, e, ho⟩ := hwp_decomp h
  generalize hwp h = w at e
  cases w with
  | nil =>
    exfalso
    rw [e] at hp
    rcases validOptionalPort_cases opt ho with e1 | ⟨ds, e1, _⟩
    · subst e1; simp [hasPrefix] at hp
    · subst e1; simp [hasPrefix, List.isPrefixOf] at hp
  | cons x t =>
    rw [e] at hp
    simp only [List.cons_append] at hp
    rw [hasPrefix_cons1] at hp ⊢; exact hp

theorem not_prefix_of (a b : Bytes) (h : hasPrefix a [91] = true → hasPrefix b [91] = true) (hb : hasPrefix b [91] = false) :
    hasPrefix a [91] = false := by
  cases ha : hasPrefix a [91] with
  | false => rfl
  | true => rw [h ha] at hb; cases hb

theorem digits_legal (ds : Bytes) (h : ds.all isDigit = true) : HostLegal ds := by
  unfold HostLegal
  rw [List.all_eq_true] at h ⊢
  intro c hc
  have := byte_all (fun c => !isDigit c || legalB c) (by decide +kernel) c
  simp only [Bool.or_eq_true, Bool.not_eq_true'] at this
  rcases this with h0 | h0
  · rw [h c hc] at h0; cases h0
  · exact h0

theorem hostLegal_colon_port (w p : Bytes) (hw : HostLegal w) (hp : HostLegal p) : HostLegal (w ++ 58 :: p) := by
  apply hostLegal_append _ _ hw
  unfold HostLegal at *
  simp only [List.all_cons, hp, Bool.and_true]; decide

theorem fixHost_legalH (s host h' : Bytes) (hf : fixHost s host = .ok h') (hl : LegalH host) : LegalH h' := by
  unfold fixHost at hf
  simp only at hf
  split at hf
  · next hbr =>
    split at hf
    · cases hf
      intro hnp
      rw [hasPrefix_toLower, hbr] at hnp; cases hnp
    · cases hf
  · next hnb =>
    have hnb' : hasPrefix (trimSuffix host [58]) [91] = false := by simpa using hnb
    have hhost : HostLegal host := hl (not_prefix_of _ _ (trim_prefix host) hnb')
    have h1 : HostLegal (trimSuffix host [58]) := hostLegal_sub _ _ (trimSuffix_sub _ _) hhost
    split at hf
    · split at hf
      · cases hf
      · cases hf
      · next ch hch =>
        have hname : HostLegal (splitHostPort (trimSuffix host [58])).1 := hostLegal_sub _ _ (splitHostPort_sub _).1 h1
        have hport : HostLegal (splitHostPort (trimSuffix host [58])).2 := hostLegal_sub _ _ (splitHostPort_sub _).2 h1
        have hch' := toASCII_legal _ ch hch hname
        split at hf
        · cases hf
          intro _
          split
          · exact hostLegal_colon_port _ _ hch' hport
          · exact hch'
        · cases hf; exact fun _ => h1
    · cases hf; exact fun _ => h1

theorem fixURL_legalH (u u' : URL) (hf : fixURL u = .ok u') (hl : LegalH u.host) : LegalH u'.host := by
  rw [fixURL_eq] at hf
  split at hf
  · cases hf
  · next h' hh =>
    cases hf
    rw [(fixRawQuery_host _).1]
    exact fixHost_legalH _ _ _ hh hl

theorem clearURLPort_legalH (u : URL) (hl : LegalH u.host) : LegalH (clearURLPort u).host := by
  show LegalH (hostWithoutPort u)
  rw [hostWithoutPort_eq]
  intro hnp
  exact hostLegal_sub _ _ (hwp_sub _) (hl (not_prefix_of _ _ (hwp_prefix u.host) hnp))

theorem normPort_legalH (u : URL) (hl : LegalH u.host) : LegalH (normPort u).host := by
  unfold normPort
  split
  · split
    · exact clearURLPort_legalH u hl
    · split
      · exact clearURLPort_legalH u hl
      · exact hl
  · exact hl

theorem dropDefaultPort_legalH (u : URL) (hl : LegalH u.host) : LegalH (dropDefaultPort u).host := by
  unfold dropDefaultPort
  split
  · split
    · exact clearURLPort_legalH u hl
    · exact hl
  · exact hl

theorem setURLPort_legalH (u : URL) (v : PortArg) (hl : LegalH u.host) : LegalH (setURLPort u v).host := by
  unfold setURLPort
  split
  · exact hl
  · split
    split
    · exact clearURLPort_legalH u hl
    · split
      · exact hl
      · split
        · exact clearURLPort_legalH u hl
        · next portNum _ _ _ _ _ =>
          show LegalH (hostWithoutPort u ++ 58 :: itoa portNum.toNat)
          rw [hostWithoutPort_eq]
          intro hnp
          have hw : HostLegal (hwp u.host) := by
            cases hq : hasPrefix (hwp u.host) [91] with
            | true => have := hasPrefix_append_left _ (58 :: itoa portNum.toNat) hq; rw [hnp] at this; cases this
            | false => exact hostLegal_sub _ _ (hwp_sub _) (hl (not_prefix_of _ _ (hwp_prefix u.host) hq))
          exact hostLegal_colon_port _ _ hw (digits_legal _ (itoa_spec _).1)

theorem normalizeURL_legalH (v u' : URL) (h : normalizeURL v = .ok u') (hl : LegalH v.host) : LegalH u'.host := by
  obtain ⟨_, hf⟩ := normalizeURL_ok v u' h
  exact fixURL_legalH _ _ hf (normPort_legalH v hl)

theorem parseURL_legalH (s : Bytes) (b : Bool) (u : URL) (hp : parseURL s b = .ok u) : LegalH u.host := by
  unfold parseURL at hp
  split at hp
  · cases hp
  · next p hpp =>
    split at hp
    · cases hp
    · exact normalizeURL_legalH _ _ hp (Parse_legalH s p hpp)

theorem construct_legalH (s : Bytes) (base : Option Bytes) (u : URL) (h : construct s base = .ok u) : LegalH u.host := by
  unfold construct at h
  split at h
  · exact parseURL_legalH _ _ _ h
  · simp only [bind, Except.bind] at h
    split at h
    · cases h
    · next baseU hb =>
      split at h
      · cases h
      · next ref hr =>
        split at h
        · exact parseURL_legalH _ _ _ h
        · refine normalizeURL_legalH _ _ h ?_
          show LegalH (resolveReference baseU ref).host
          rcases resolveReference_host baseU ref with e | e | e
          · rw [e]; exact Parse_legalH _ _ hr
          · rw [e]; exact legalH_nil
          · rw [e]; exact parseURL_legalH _ _ _ hb

theorem legalH_step (st st' : St) (op : Op) (hi : LegalH st.url.host) (h : step st op = .ok st') :
    LegalH st'.url.host := by
  cases op with
  | set p v =>
    cases p with
    | href =>
      simp only [step, bind, Except.bind, pure, Except.pure] at h
      generalize hp : parseURL v true = r at h
      cases r with
      | error e => cases h
      | ok u =>
        simp only [Except.ok.injEq] at h
        subst h
        have hu := parseURL_legalH _ _ _ hp
        unfold St.refreshParams
        split <;> exact hu
    | protocol =>
      rcases step_protocol st st' v h with e | ⟨s, u, hf, e⟩
      · rw [e]; exact hi
      · subst e
        exact dropDefaultPort_legalH u (fixURL_legalH _ u hf hi)
    | host =>
      rcases step_host st st' v h with e | ⟨hv, u, hf, e⟩
      · rw [e]; exact hi
      · subst e
        obtain ⟨p, hp, hph, _, _⟩ := validHost_ok2 _ _ hv
        have hl := ParseRequestURI_legalH _ _ hp
        rw [hph] at hl
        exact dropDefaultPort_legalH u (fixURL_legalH _ u hf hl)
    | hostname =>
      rcases step_hostname st st' v h with e | ⟨_, hv, u, hf, e⟩
      · rw [e]; exact hi
      · subst e
        obtain ⟨p, hp, hph, _, _⟩ := validHost_ok2 _ _ hv
        have hl := ParseRequestURI_legalH _ _ hp
        rw [hph] at hl
        refine fixURL_legalH _ u hf ?_
        show LegalH (if (st.url.port != []) = true then v ++ 58 :: st.url.port else v)
        split
        · intro hnp
          have hv' : HostLegal v := by
            cases hq : hasPrefix v [91] with
            | true => have := hasPrefix_append_left v (58 :: st.url.port) hq; rw [hnp] at this; cases this
            | false => exact hl hq
          exact hostLegal_colon_port _ _ hv' (digits_legal _ (portOf_spec _).1)
        · exact hl
    | search =>
      simp only [step, pure, Except.pure, Except.ok.injEq] at h
      subst h
      have : LegalH (fixRawQuery { st.url with rawQuery := trimPrefix v [63] }).host := by
        rw [(fixRawQuery_host _).1]; exact hi
      unfold St.refreshParams
      split <;> exact this
    | port =>
      simp only [step, pure, Except.pure, Except.ok.injEq] at h
      subst h
      exact setURLPort_legalH _ _ hi
    | username | password | pathname | hash =>
      simp only [step, pure, Except.pure, Except.ok.injEq] at h
      subst h
      exact hi
  | setPort v =>
    simp only [step, pure, Except.pure, Except.ok.injEq] at h
    subst h
    exact setURLPort_legalH _ _ hi
  | getSP =>
    simp only [step, pure, Except.pure] at h
    split at h <;> cases h <;> exact hi
  | spAppend k v | spDelete k v | spSet k v | spSort =>
    simp only [step, pure, Except.pure, Except.ok.injEq] at h
    subst h
    unfold St.markUpdated
    split <;> exact hi

theorem legalH_reach (st : St) (h : Reach st) : LegalH st.url.host := by
  induction h with
  | ctor s base u hc => exact construct_legalH s base u hc
  | step st st' op _ hs ih => exact legalH_step st st' op ih hs
  | read st _ ih =>
    show LegalH st.sync.url.host
    rw [(sync_url_fields st).1]; exact ih

theorem parseHost_nil : parseHost [] = some [] := by decide

theorem lay_of_rinv2 (u : URL) (hi : RInv u) (hq : escapeQuery u.rawQuery = u.rawQuery)
    (hs : validScheme u.scheme = true) (hl : LegalH u.host)
    (hb : hasPrefix u.host [91] = true → HostSimple u.host) (hr : RawOK u) : Lay u := by
  refine ⟨hs, hi.lower, fun hne => (hi.opaq hne).1, ?_, hr, hq, ?_⟩
  · have := cleanPath_form u.path u.scheme
    rw [hi.path] at this
    rcases this with h | h
    · exact Or.inl h
    · exact Or.inr (cleanForm_shape _ h)
  · obtain ⟨w, opt, hd, _, _, hbr, _⟩ := hi.host
    cases hp : hasPrefix u.host [91] with
    | true =>
      rw [hostStr_simple u (hb hp)]
      exact parseHost_simple _ w opt (hb hp) hd hbr
    | false =>
      unfold hostStr
      split
      · exact parseHost_legal _ w opt (hl hp) hp hd
      · next hne => simp at hne; rw [hne]; exact parseHost_nil

/-- **partial result**: every reachable state shows an `href` that parses again to the same `href`, unless its host
is a bracketed IPv6 literal that contains more than plain ASCII address characters (i.e. a zone id with `%`) -/
theorem reparseStable_partial_noZone (st : St) (hr : Reach st)
    (hb : hasPrefix st.url.host [91] = true → HostSimple st.url.host) : ReparseOK st := by
  obtain ⟨a, b, _, _, e⟩ := sync_url_fields st
  have hi := rinv_sync st (rinv_reach st hr)
  have hq := (qinv_sync st (qinv_reach st hr)).1
  apply reparseOK_of st
  · apply lay_of_rinv2 _ hi hq (by rw [b]; exact scheme_reach st hr) (by rw [a]; exact legalH_reach st hr)
      (by rw [a]; exact hb)
    unfold RawOK; rw [e]; exact raw_reach st hr
  · exact normOK_of_rinv _ hi

/-! ## bracketed hosts with a zone id -/

/-- a byte `parseHost` can produce inside a zone id -/
def zoneB (c : UInt8) : Bool := legalB c || c == 32

theorem shouldEscape_zone_fin : ∀ n : Fin 256, shouldEscape (UInt8.ofNat n.val) .zone = shouldEscape (UInt8.ofNat n.val) .host := by
  decide +kernel

theorem shouldEscape_zone (c : UInt8) : shouldEscape c .zone = shouldEscape c .host := by
  have := byte_all (fun c => shouldEscape c .zone == shouldEscape c .host)
    (by intro n; rw [shouldEscape_zone_fin n]; simp) c
  simpa using this

theorem ok_zone_pct (x y : UInt8) (rest : Bytes) :
    unescapeOk .zone (37 :: x :: y :: rest) =
      (isHex x && isHex y &&
        !(!(x == 50 && y == 53) && (unhex x <<< 4 ||| unhex y) != 32 && shouldEscape (unhex x <<< 4 ||| unhex y) .host) &&
        unescapeOk .zone rest) := by
  rw [unescapeOk]
  have h1 : (Mode.zone == Mode.host) = false := rfl
  have h2 : (Mode.zone == Mode.zone) = true := rfl
  simp only [h1, h2, Bool.true_and, Bool.false_and, Bool.false_eq_true, if_false]
  generalize (!(x == 50 && y == 53) && (unhex x <<< 4 ||| unhex y) != 32 && shouldEscape (unhex x <<< 4 ||| unhex y) .host) = c
  cases isHex x <;> cases isHex y <;> cases c <;> simp

theorem ok_zone_cons (c : UInt8) (rest : Bytes) (h1 : c ≠ 37) (h2 : shouldEscape c .host = false ∨ c ≥ 128 ∨ c = 43) :
    unescapeOk .zone (c :: rest) = unescapeOk .zone rest := by
  have hz := shouldEscape_zone c
  rw [unescapeOk.eq_def]
  split
  · simp_all
  · simp_all
  · simp_all
  · next c' rest' _ _ heq =>
    simp only [List.cons.injEq] at heq
    obtain ⟨e1, e2⟩ := heq
    subst e1; subst e2
    have : (c != 43 && (Mode.zone == Mode.host || Mode.zone == Mode.zone) && decide (c < 128) && shouldEscape c .zone) = false := by
      rw [hz]
      rcases h2 with h | h | h
      · simp [h]
      · have : ¬ c < 128 := by simpa [UInt8.not_lt] using h
        simp [this]
      · simp [h]
    rw [this]; simp

/-- zone-mode: escaping (as `URL.String` does, in host mode) then unescaping one byte -/
def escZoneOK (c : UInt8) : Bool :=
  !(zoneB c && c < 128) ||
  (if shouldEscape c .host then
    isHex (hexU (c >>> 4)) && isHex (hexU (c &&& 15)) &&
      !(!(hexU (c >>> 4) == 50 && hexU (c &&& 15) == 53) &&
          (unhex (hexU (c >>> 4)) <<< 4 ||| unhex (hexU (c &&& 15))) != 32 &&
          shouldEscape (unhex (hexU (c >>> 4)) <<< 4 ||| unhex (hexU (c &&& 15))) .host) &&
      (unhex (hexU (c >>> 4)) <<< 4 ||| unhex (hexU (c &&& 15))) == c
   else c != 37)

theorem escZoneOK_fin : ∀ n : Fin 256, escZoneOK (UInt8.ofNat n.val) = true := by decide +kernel

theorem unescape_escByte_zone (c : UInt8) (hc : zoneB c = true) (h128 : c < 128) (rest : Bytes) :
    unescapeOk .zone (Net.escByte .host c ++ rest) = unescapeOk .zone rest ∧
    unescapeRaw .zone (Net.escByte .host c ++ rest) = c :: unescapeRaw .zone rest := by
  have hk := byte_all escZoneOK escZoneOK_fin c
  unfold escZoneOK at hk
  have h128' : decide (c < 128) = true := by simpa using h128
  rw [hc, h128'] at hk
  simp only [Bool.and_self, Bool.not_true, Bool.false_or] at hk
  unfold Net.escByte
  have hq : (Mode.host == Mode.queryComponent) = false := rfl
  simp only [hq, Bool.and_false, Bool.false_eq_true, if_false]
  cases hs : shouldEscape c .host with
  | true =>
    simp only [hs, if_true, Bool.and_eq_true, beq_iff_eq] at hk
    simp only [if_true, List.cons_append, List.nil_append]
    rw [ok_zone_pct, raw_pct]
    obtain ⟨⟨⟨h1, h2⟩, h3⟩, h4⟩ := hk
    rw [h1, h2, h3, h4]
    simp
  | false =>
    simp only [hs, Bool.false_eq_true, if_false, bne_iff_ne, ne_eq] at hk
    simp only [Bool.false_eq_true, if_false, List.cons_append, List.nil_append]
    refine ⟨ok_zone_cons c rest hk (Or.inl hs), ?_⟩
    rw [raw_cons_ne _ c rest hk]
    unfold plusByte
    split
    · next e => subst e; rfl
    · rfl

theorem unescape_escape_zone (q : Bytes) (hq : q.all zoneB = true) (h128 : q.all (· < 128) = true) :
    unescapeOk .zone (Net.escape .host q) = true ∧ unescapeRaw .zone (Net.escape .host q) = q := by
  induction q with
  | nil => simp [Net.escape, unescapeOk, unescapeRaw]
  | cons c t ih =>
    simp only [List.all_cons, Bool.and_eq_true, decide_eq_true_eq] at hq h128
    simp only [Net.escape, List.flatMap_cons] at *
    obtain ⟨e1, e2⟩ := unescape_escByte_zone c hq.1 h128.1 (List.flatMap (Net.escByte .host) t)
    have := ih hq.2 (by simpa using h128.2)
    rw [e1, e2, this.1, this.2]
    exact ⟨rfl, rfl⟩

theorem indexSub_go_append (c x y : UInt8) (r : Bytes) : ∀ (a : Bytes) (i : Nat), c ∉ a →
    indexSub.go [c, x, y] (a ++ c :: x :: y :: r) i = some (i + a.length) := by
  intro a
  induction a with
  | nil => intro i _; simp [indexSub.go, List.isPrefixOf]
  | cons d t ih =>
    intro i hd
    have hdc : d ≠ c := by intro e; subst e; simp at hd
    have : ([c, x, y] : Bytes).isPrefixOf (d :: (t ++ c :: x :: y :: r)) = false := by
      simp [List.isPrefixOf]; intro e; exact absurd e.symm hdc
    simp only [List.cons_append, indexSub.go, this, Bool.false_eq_true, if_false]
    rw [ih (i + 1) (fun hm => hd (List.mem_cons_of_mem _ hm))]
    simp; omega

theorem indexSub_append (a r : Bytes) (h : (37 : UInt8) ∉ a) :
    indexSub (a ++ 37 :: 50 :: 53 :: r) [37, 50, 53] = some a.length := by
  unfold indexSub
  rw [indexSub_go_append 37 50 53 r a 0 h]; simp

theorem indexSub_go_prefix (sub : Bytes) : ∀ (s : Bytes) (i z : Nat), indexSub.go sub s i = some z →
    i ≤ z ∧ sub.isPrefixOf (s.drop (z - i)) = true := by
  intro s
  induction s with
  | nil =>
    intro i z h
    simp only [indexSub.go] at h
    split at h
    · next hs =>
      simp only [Option.some.injEq] at h
      subst h
      simp only [beq_iff_eq] at hs
      subst hs
      simp
    · cases h
  | cons c t ih =>
    intro i z h
    simp only [indexSub.go] at h
    split at h
    · next hp =>
      simp only [Option.some.injEq] at h
      subst h
      simpa using hp
    · obtain ⟨h1, h2⟩ := ih (i + 1) z h
      refine ⟨by omega, ?_⟩
      have : z - i = (z - (i + 1)) + 1 := by omega
      rw [this, List.drop_succ_cons]; exact h2

theorem indexSub_prefix (s sub : Bytes) (z : Nat) (h : indexSub s sub = some z) : sub.isPrefixOf (s.drop z) = true := by
  unfold indexSub at h
  have := (indexSub_go_prefix sub s 0 z h).2
  simpa using this

def ZShape (h : Bytes) : Prop :=
  ∃ p q opt, h = p ++ q ++ 93 :: opt ∧ validOptionalPort opt = true ∧ p.all legalB = true ∧ (37 : UInt8) ∉ p ∧
    (q = [] ∨ ∃ t, q = 37 :: t) ∧ q.all zoneB = true

/-- bracketed hosts have the shape `[` address `%` zone `]` port -/
def ZH (h : Bytes) : Prop := hasPrefix h [91] = true → ZShape h

theorem zoneB_of_legal (c : UInt8) (h : legalB c = true) : zoneB c = true := by simp [zoneB, h]

theorem zshape_of_parts (h1 h2 opt : Bytes) (ho : validOptionalPort opt = true) (hl1 : h1.all legalB = true)
    (hl2 : h2.all zoneB = true) (hh2 : h2 = [] ∨ ∃ t, h2 = 37 :: t) : ZShape (h1 ++ h2 ++ 93 :: opt) := by
  by_cases hm : (37 : UInt8) ∈ h1
  · obtain ⟨a, b, e, ha⟩ := first_occurrence h1 37 hm
    refine ⟨a, 37 :: b ++ h2, opt, by rw [e]; simp, ho, ?_, ha, Or.inr ⟨_, rfl⟩, ?_⟩
    · rw [e, List.all_append] at hl1
      simp only [Bool.and_eq_true] at hl1; exact hl1.1
    · rw [e, List.all_append] at hl1
      simp only [Bool.and_eq_true, List.all_cons] at hl1
      simp only [List.cons_append, List.all_cons, List.all_append, Bool.and_eq_true]
      refine ⟨by decide, ?_, hl2⟩
      rw [List.all_eq_true]
      intro c hc
      exact zoneB_of_legal c (List.all_eq_true.1 hl1.2.2 c hc)
  · exact ⟨h1, h2, opt, rfl, ho, hl1, hm, hh2, hl2⟩

theorem ok_split_host_aux (b : UInt8) (B : Bytes) (hb : isHex b = false) : ∀ (n : Nat) (A : Bytes), A.length ≤ n →
    unescapeOk .host (A ++ b :: B) = true → unescapeOk .host A = true := by
  intro n
  induction n with
  | zero =>
    intro A hA _
    have : A = [] := List.eq_nil_of_length_eq_zero (by omega)
    subst this; simp [unescapeOk]
  | succ n ih =>
    intro A hA hok
    cases A with
    | nil => simp [unescapeOk]
    | cons c A' =>
      by_cases hc : c = 37
      · subst hc
        cases A' with
        | nil =>
          exfalso
          cases B with
          | nil => simp [ok_pct_short2] at hok
          | cons y B' =>
            have := (ok_pct .host b y B' hok).1
            rw [hb] at this; cases this
        | cons x A'' =>
          cases A'' with
          | nil =>
            exfalso
            have := (ok_pct .host x b B hok).2.1
            rw [hb] at this; cases this
          | cons y A3 =>
            simp only [List.cons_append] at hok
            rw [ok_host_pct] at hok ⊢
            simp only [Bool.and_eq_true] at hok ⊢
            exact ⟨hok.1, ih A3 (by simp at hA; omega) hok.2⟩
      · simp only [List.cons_append] at hok
        have hrest := ok_cons_ne .host c _ hc hok
        have hleg := ok_host_cons_legal c _ hc hok
        have hA' := ih A' (by simp at hA; omega) hrest
        -- the check on `c` does not depend on what follows
        rw [unescapeOk.eq_def] at hok ⊢
        split at hok
        · simp_all
        · simp_all
        · simp_all
        · next c' rest' _ _ heq =>
          simp only [List.cons.injEq] at heq
          obtain ⟨e1, e2⟩ := heq
          subst e1
          split at hok
          · cases hok
          · next hcond =>
            split
            · simp_all
            · simp_all
            · simp_all
            · next c'' rest'' _ _ heq' =>
              simp only [List.cons.injEq] at heq'
              obtain ⟨e3, e4⟩ := heq'
              subst e3; subst e4
              rw [if_neg hcond]; exact hA'

theorem ok_split_host (A : Bytes) (b : UInt8) (B : Bytes) (hb : isHex b = false)
    (h : unescapeOk .host (A ++ b :: B) = true) : unescapeOk .host A = true :=
  ok_split_host_aux b B hb A.length A (Nat.le_refl _) h

theorem ok_zone_cons_legal (c : UInt8) (t : Bytes) (hc : c ≠ 37) (hok : unescapeOk .zone (c :: t) = true) :
    legalB c = true := by
  cases hl : legalB c with
  | true => rfl
  | false =>
    exfalso
    unfold legalB at hl
    simp only [Bool.or_eq_false_iff, Bool.not_eq_false', decide_eq_false_iff_not, beq_eq_false_iff_ne] at hl
    obtain ⟨⟨h1, h2⟩, _⟩ := hl
    have h43 : c ≠ 43 := by intro e; subst e; revert h1; decide
    have h128 : c < 128 := by simpa [UInt8.not_le] using h2
    have hz := shouldEscape_zone c
    rw [unescapeOk.eq_def] at hok
    split at hok
    · simp_all
    · simp_all
    · simp_all
    · next c' rest' _ _ heq =>
      simp only [List.cons.injEq] at heq
      obtain ⟨e1, e2⟩ := heq
      subst e1
      have h43' : (c != 43) = true := by simpa using h43
      have h128' : decide (c < 128) = true := by simpa using h128
      simp [h43', h128', hz, h1] at hok

theorem unescape_zone_legal_aux : ∀ (n : Nat) (a : Bytes), a.length ≤ n → unescapeOk .zone a = true →
    (unescapeRaw .zone a).all zoneB = true := by
  intro n
  induction n with
  | zero =>
    intro a ha _
    have : a = [] := List.eq_nil_of_length_eq_zero (by omega)
    subst this; simp [unescapeRaw]
  | succ n ih =>
    intro a ha hok
    cases a with
    | nil => simp [unescapeRaw]
    | cons c t =>
      by_cases hc : c = 37
      · subst hc
        cases t with
        | nil => simp [ok_pct_short1] at hok
        | cons x t' =>
          cases t' with
          | nil => simp [ok_pct_short2] at hok
          | cons y t'' =>
            rw [ok_zone_pct] at hok
            simp only [Bool.and_eq_true, Bool.not_eq_true'] at hok
            obtain ⟨⟨⟨_, _⟩, hcond⟩, hrest⟩ := hok
            rw [raw_pct]
            simp only [List.all_cons, Bool.and_eq_true]
            refine ⟨?_, ih t'' (by simp at ha; omega) hrest⟩
            unfold zoneB legalB
            by_cases h25 : (x == 50 && y == 53) = true
            · simp only [Bool.and_eq_true, beq_iff_eq] at h25
              obtain ⟨hx, hy⟩ := h25
              subst hx; subst hy; decide
            · have h25' : (x == 50 && y == 53) = false := by simpa using h25
              rw [h25'] at hcond
              simp only [Bool.not_false, Bool.true_and, Bool.and_eq_false_iff, bne_eq_false_iff_eq] at hcond
              rcases hcond with h | h
              · rw [h]; decide
              · simp [h]
      · have hok' := ok_cons_ne _ c t hc hok
        rw [raw_cons_ne _ c t hc]
        simp only [List.all_cons, Bool.and_eq_true]
        refine ⟨?_, ih t (by simp at ha; omega) hok'⟩
        have hb := ok_zone_cons_legal c t hc hok
        unfold plusByte
        split
        · next e => subst e; decide
        · exact zoneB_of_legal c hb

theorem unescape_zone_legal (a r : Bytes) (h : Net.unescape .zone a = some r) : r.all zoneB = true := by
  obtain ⟨hok, e⟩ := unescape_some _ _ _ h
  rw [e]; exact unescape_zone_legal_aux a.length a (Nat.le_refl _) hok

theorem parseHost_ZH (a r : Bytes) (h : parseHost a = some r) : ZH r := by
  intro hrp
  unfold parseHost at h
  split at h
  · next hpre =>
    rcases lastIndexByte_cases a 93 with ⟨_, e⟩ | ⟨A, opt, ea, _, e⟩
    · rw [e] at h; cases h
    · rw [e] at h
      simp only at h
      have hdrop : a.drop (A.length + 1) = opt := by rw [ea]; simp
      have hdrop' : a.drop A.length = 93 :: opt := by rw [ea]; simp
      have htake : a.take A.length = A := by rw [ea]; simp
      rw [hdrop, hdrop', htake] at h
      split at h
      · cases h
      · next hv =>
        have hv : validOptionalPort opt = true := by simpa using hv
        have h3 : unescapeRaw .host (93 :: opt) = 93 :: opt := raw_host_plain _ (opt_no_percent opt hv)
        split at h
        · next zone hz =>
          split at h
          · next h1 h2 h3' hu1 hu2 hu3 =>
            cases h
            have e3 := (unescape_some _ _ _ hu3).2
            rw [h3] at e3
            subst e3
            have hl1 := unescape_host_legal _ _ hu1
            have hl2 := unescape_zone_legal _ _ hu2
            have hpre2 := indexSub_prefix A _ zone hz
            have hh2 : h2 = [] ∨ ∃ t, h2 = 37 :: t := by
              right
              obtain ⟨r', er⟩ := List.isPrefixOf_iff_prefix.1 hpre2
              have e2 := (unescape_some _ _ _ hu2).2
              rw [← er] at e2
              simp only [List.cons_append, List.nil_append] at e2
              rw [raw_pct] at e2
              exact ⟨_, by rw [e2]; rfl⟩
            exact zshape_of_parts h1 h2 opt hv hl1 hl2 hh2
          · cases h
        · obtain ⟨hok, hr⟩ := unescape_some _ _ _ h
          subst hr
          rw [ea] at hok ⊢
          rw [raw_append .host A 93 opt (by decide) hok, h3]
          have hokA := ok_split_host A 93 opt (by decide) hok
          have hl1 := unescape_host_legal_aux A.length A (Nat.le_refl _) hokA
          have := zshape_of_parts (unescapeRaw .host A) [] opt hv hl1 rfl (Or.inl rfl)
          simpa using this
  · next hpre =>
    exfalso
    have hpre : hasPrefix a [91] = false := by simpa using hpre
    have key : ∀ r, Net.unescape .host a = some r → hasPrefix r [91] = false := by
      intro r hr
      obtain ⟨hok, e⟩ := unescape_some _ _ _ hr
      subst e
      exact raw_host_first a hpre hok
    split at h
    · split at h
      · cases h
      · rw [key r h] at hrp; cases hrp
    · rw [key r h] at hrp; cases hrp

theorem ZH_nil : ZH [] := fun h => by simp [hasPrefix] at h

theorem Parse_ZH (raw : Bytes) (p : URL) (h : Net.Parse raw = some p) : ZH p.host :=
  Parse_pred ZH ZH_nil parseHost_ZH raw p h

theorem ParseRequestURI_ZH (raw : Bytes) (p : URL) (h : ParseRequestURI raw = some p) : ZH p.host :=
  ParseRequestURI_pred ZH ZH_nil parseHost_ZH raw p h

theorem simple_of_legal (p : Bytes) (hl : p.all legalB = true) (h37 : (37 : UInt8) ∉ p) (h128 : p.all (· < 128) = true) :
    HostSimple p := by
  intro c hc
  have h1 := List.all_eq_true.1 hl c hc
  have h2 : c < 128 := by simpa using List.all_eq_true.1 h128 c hc
  refine ⟨h2, ?_⟩
  unfold legalB at h1
  simp only [Bool.or_eq_true, Bool.not_eq_true', decide_eq_true_eq, beq_iff_eq] at h1
  rcases h1 with (h | h) | h
  · exact h
  · exact absurd h2 (by simpa [UInt8.not_lt] using h)
  · subst h; exact absurd hc h37

theorem hostSimple_append (a b : Bytes) (ha : HostSimple a) (hb : HostSimple b) : HostSimple (a ++ b) := by
  intro c hc
  rcases List.mem_append.1 hc with h | h
  · exact ha c h
  · exact hb c h

theorem bracket_opt_simple (opt : Bytes) (h : validOptionalPort opt = true) : HostSimple (93 :: opt) := by
  intro c hc
  rcases List.mem_cons.1 hc with e | h'
  · subst e; exact ⟨by decide, by decide⟩
  · exact opt_simple opt h c h'

/-- a bracketed host with (or without) a zone id survives `escape` + `parseHost` -/
theorem parseHost_zone (h : Bytes) (hp : hasPrefix h [91] = true) (hz : ZShape h) (h128 : h.all (· < 128) = true) :
    parseHost (Net.escape .host h) = some h := by
  obtain ⟨p, q, opt, e, ho, hlp, h37, hq, hlq⟩ := hz
  have h128p : p.all (· < 128) = true := by
    rw [e, List.all_append, List.all_append] at h128
    simp only [Bool.and_eq_true] at h128; exact h128.1.1
  have h128q : q.all (· < 128) = true := by
    rw [e, List.all_append, List.all_append] at h128
    simp only [Bool.and_eq_true] at h128; exact h128.1.2
  have hsp := simple_of_legal p hlp h37 h128p
  have hso := bracket_opt_simple opt ho
  have hesc : Net.escape .host h = p ++ Net.escape .host q ++ 93 :: opt := by
    rw [e, escape_append, escape_append, hostSimple_escape p hsp, hostSimple_escape _ hso]
  -- `p` begins with `[`
  have hp' : ∃ p', p = 91 :: p' := by
    obtain ⟨r, er⟩ := (hasPrefix_iff _ _).1 hp
    cases p with
    | nil =>
      exfalso
      rcases hq with hq | ⟨t, hq⟩
      · subst hq; rw [e] at er; simp at er
      · subst hq; rw [e] at er; simp at er
    | cons x p' =>
      rw [e] at er
      simp only [List.cons_append, List.nil_append, List.cons.injEq] at er
      exact ⟨p', by rw [er.1]⟩
  obtain ⟨p', ep'⟩ := hp'
  have hpre : hasPrefix (Net.escape .host h) [91] = true := by
    rw [hesc, ep']; exact (hasPrefix_iff _ _).2 ⟨_, rfl⟩
  have h93 : (93 : UInt8) ∉ opt := by
    rcases validOptionalPort_cases opt ho with e1 | ⟨ds, e1, hds⟩
    · subst e1; simp
    · subst e1
      intro hm
      rcases List.mem_cons.1 hm with h' | h'
      · revert h'; decide
      · have := List.all_eq_true.1 hds 93 h'
        revert this; decide
  have hl : lastIndexByte (Net.escape .host h) 93 = some (p ++ Net.escape .host q).length := by
    rw [hesc]; exact lastIndexByte_append _ opt 93 h93
  unfold parseHost
  rw [hpre, hl]
  simp only [if_true]
  have hdrop : (Net.escape .host h).drop ((p ++ Net.escape .host q).length + 1) = opt := by
    rw [hesc]
    rw [show p ++ Net.escape .host q ++ 93 :: opt = (p ++ Net.escape .host q ++ [93]) ++ opt by simp]
    rw [show (p ++ Net.escape .host q).length + 1 = (p ++ Net.escape .host q ++ [93]).length by simp; omega]
    exact List.drop_left' rfl
  have hdrop' : (Net.escape .host h).drop (p ++ Net.escape .host q).length = 93 :: opt := by
    rw [hesc]; exact List.drop_left' rfl
  have htake : (Net.escape .host h).take (p ++ Net.escape .host q).length = p ++ Net.escape .host q := by
    rw [hesc]; exact List.take_left' rfl
  rw [hdrop, ho, htake]
  simp only [Bool.not_true, Bool.false_eq_true, if_false]
  rcases hq with hq | ⟨t, hq⟩
  · -- no zone id
    subst hq
    have hsimple : HostSimple h := by
      rw [e]; simp only [List.append_nil]; exact hostSimple_append _ _ hsp hso
    simp only [Net.escape, List.flatMap_nil, List.append_nil]
    rw [indexSub_none p h37]
    simp only
    have := hostSimple_unescape h hsimple
    rw [← hostSimple_escape h hsimple] at this
    rw [show List.flatMap (Net.escByte .host) h = Net.escape .host h from rfl]
    rw [hostSimple_escape h hsimple] at this ⊢
    exact this
  · subst hq
    have heq : Net.escape .host (37 :: t) = 37 :: 50 :: 53 :: Net.escape .host t := by
      simp only [Net.escape, List.flatMap_cons]
      have : Net.escByte .host 37 = [37, 50, 53] := by decide
      rw [this]; rfl
    rw [heq, indexSub_append p _ h37]
    simp only
    have ht1 : (Net.escape .host h).take p.length = p := by
      rw [hesc, List.append_assoc]; exact List.take_left' rfl
    have hd1 : (p ++ 37 :: 50 :: 53 :: Net.escape .host t).drop p.length = 37 :: 50 :: 53 :: Net.escape .host t :=
      List.drop_left' rfl
    rw [ht1, hd1, ← heq, hdrop']
    have u1 : Net.unescape .host p = some p := hostSimple_unescape p hsp
    have u2 : Net.unescape .zone (Net.escape .host (37 :: t)) = some (37 :: t) := by
      obtain ⟨a, b⟩ := unescape_escape_zone (37 :: t) hlq h128q
      unfold Net.unescape; simp [a, b]
    have u3 : Net.unescape .host (93 :: opt) = some (93 :: opt) := hostSimple_unescape _ hso
    rw [u1, u2, u3]
    simp only [e, List.append_assoc, List.cons_append]

/-! ### the invariant for bracketed hosts -/

def B128 (h : Bytes) : Prop := hasPrefix h [91] = true → h.all (· < 128) = true

theorem lower_zone_fin : ∀ n : Fin 256,
    ((!zoneB (UInt8.ofNat n.val) || zoneB (lowerByte (UInt8.ofNat n.val))) &&
     (!decide (UInt8.ofNat n.val < 128) || decide (lowerByte (UInt8.ofNat n.val) < 128)) &&
     ((lowerByte (UInt8.ofNat n.val) == 37) == (UInt8.ofNat n.val == 37)) &&
     ((lowerByte (UInt8.ofNat n.val) == 93) == (UInt8.ofNat n.val == 93))) = true := by decide +kernel

theorem lower_zone (c : UInt8) : (zoneB c = true → zoneB (lowerByte c) = true) ∧ (c < 128 → lowerByte c < 128) ∧
    (lowerByte c = 37 ↔ c = 37) ∧ (lowerByte c = 93 ↔ c = 93) := by
  have := byte_all (fun c => (!zoneB c || zoneB (lowerByte c)) && (!decide (c < 128) || decide (lowerByte c < 128)) &&
     ((lowerByte c == 37) == (c == 37)) && ((lowerByte c == 93) == (c == 93))) lower_zone_fin c
  simp only [Bool.and_eq_true, Bool.or_eq_true, Bool.not_eq_true', decide_eq_true_eq, decide_eq_false_iff_not,
    beq_iff_eq] at this
  obtain ⟨⟨⟨h1, h2⟩, h3⟩, h4⟩ := this
  refine ⟨fun h => ?_, fun h => ?_, ?_, ?_⟩
  · rcases h1 with h0 | h0
    · rw [h] at h0; cases h0
    · exact h0
  · rcases h2 with h0 | h0
    · exact absurd h h0
    · exact h0
  · constructor
    · intro e; simpa [e] using h3
    · intro e; simpa [e] using h3
  · constructor
    · intro e; simpa [e] using h4
    · intro e; simpa [e] using h4

theorem zshape_goodW (p q : Bytes) (hp : hasPrefix (p ++ q ++ [93]) [91] = true) : GoodW (p ++ q ++ [93]) :=
  Or.inr ⟨hp, by simp⟩

theorem zshape_w_prefix (p q opt : Bytes) (_ho : validOptionalPort opt = true)
    (hp : hasPrefix (p ++ q ++ 93 :: opt) [91] = true) : hasPrefix (p ++ q ++ [93]) [91] = true := by
  obtain ⟨r, er⟩ := (hasPrefix_iff _ _).1 hp
  cases hpq : p ++ q with
  | nil => rw [hpq] at er; simp at er
  | cons x t =>
    rw [hpq] at er
    simp only [List.cons_append, List.nil_append, List.cons.injEq] at er
    rw [er.1]; exact (hasPrefix_iff _ _).2 ⟨t ++ [93], rfl⟩

theorem zshape_lower (p q opt : Bytes) (ho : validOptionalPort opt = true) (hlp : p.all legalB = true)
    (h37 : (37 : UInt8) ∉ p) (hq : q = [] ∨ ∃ t, q = 37 :: t) (hlq : q.all zoneB = true) :
    ZShape (toLowerAscii (p ++ q ++ 93 :: opt)) := by
  refine ⟨toLowerAscii p, toLowerAscii q, opt, ?_, ho, ?_, ?_, ?_, ?_⟩
  · rw [toLowerAscii_eq, List.map_append, List.map_append, List.map_cons, ← toLowerAscii_eq, ← toLowerAscii_eq,
      ← toLowerAscii_eq, toLowerAscii_opt opt ho]
    rfl
  · rw [toLowerAscii_eq, List.all_map, List.all_eq_true]
    intro c hc
    exact legalB_lowerByte c (List.all_eq_true.1 hlp c hc)
  · rw [toLowerAscii_eq]
    intro hm
    obtain ⟨c, hc, e⟩ := List.mem_map.1 hm
    rw [(lower_zone c).2.2.1] at e
    subst e; exact h37 hc
  · rcases hq with e | ⟨t, e⟩
    · left; rw [e]; rfl
    · right; rw [e]; exact ⟨toLowerAscii t, rfl⟩
  · rw [toLowerAscii_eq, List.all_map, List.all_eq_true]
    intro c hc
    exact (lower_zone c).1 (List.all_eq_true.1 hlq c hc)

theorem trim_prefix_rev (h : Bytes) (hp : hasPrefix (trimSuffix h [58]) [91] = true) : hasPrefix h [91] = true := by
  rcases trimSuffix_cases h [58] with ⟨_, e⟩ | ⟨_, e⟩
  · rw [e]; exact hasPrefix_append_left _ _ hp
  · rw [e] at hp; exact hp

theorem splitHostPort_fst_prefix (h : Bytes) (hp : hasPrefix h [91] = false) : hasPrefix (splitHostPort h).1 [91] = false := by
  have take_np : ∀ k, hasPrefix (h.take k) [91] = false := by
    intro k
    cases hq : hasPrefix (h.take k) [91] with
    | false => rfl
    | true =>
      have : hasPrefix (h.take k ++ h.drop k) [91] = true := hasPrefix_append_left _ _ hq
      rw [List.take_append_drop, hp] at this; cases this
  rcases lastIndexByte_cases h 58 with ⟨_, e⟩ | ⟨a, b, eh, _, e⟩
  · unfold splitHostPort
    rw [e]
    simp only [hp, Bool.false_and, Bool.false_eq_true, if_false]
  · unfold splitHostPort
    rw [e]
    simp only
    cases hv : validOptionalPort (List.drop a.length h) with
    | true => simp only [if_true, take_np, Bool.false_and, Bool.false_eq_true, if_false]
    | false => simp only [Bool.false_eq_true, if_false, hp, Bool.false_and]

theorem prefix_append_colon (ch x : Bytes) (h : hasPrefix ch [91] = false) : hasPrefix (ch ++ 58 :: x) [91] = false := by
  cases ch with
  | nil => simp [hasPrefix, List.isPrefixOf]
  | cons c t => simp only [List.cons_append]; rw [hasPrefix_cons1] at h ⊢; exact h

theorem fixHost_Z (s host h' : Bytes) (hf : fixHost s host = .ok h') (hz : ZH host) : ZH h' ∧ B128 h' := by
  unfold fixHost at hf
  simp only at hf
  split at hf
  · next hbr =>
    split at hf
    · next hall =>
      cases hf
      obtain ⟨p, q, opt, e, ho, hlp, h37, hq, hlq⟩ := hz (trim_prefix_rev host hbr)
      have hwp := zshape_w_prefix p q opt ho (by rw [← e]; exact trim_prefix_rev host hbr)
      obtain ⟨opt1, ht, ho1, _, _⟩ := trim_decomp (p ++ q ++ [93]) opt (zshape_goodW p q hwp) ho
      have e1 : trimSuffix host [58] = p ++ q ++ 93 :: opt1 := by
        rw [e, show p ++ q ++ 93 :: opt = (p ++ q ++ [93]) ++ opt by simp, ht]; simp
      refine ⟨fun _ => ?_, fun _ => ?_⟩
      · rw [e1]; exact zshape_lower p q opt1 ho1 hlp h37 hq hlq
      · rw [toLowerAscii_eq, List.all_map, List.all_eq_true]
        intro c hc
        have := List.all_eq_true.1 hall c hc
        simp only [Function.comp, decide_eq_true_eq] at this ⊢
        exact (lower_zone c).2.1 this
    · cases hf
  · next hnb =>
    have hnb' : hasPrefix (trimSuffix host [58]) [91] = false := by simpa using hnb
    have vac : ∀ x : Bytes, hasPrefix x [91] = false → ZH x ∧ B128 x :=
      fun x hx => ⟨fun h => (by rw [hx] at h; cases h), fun h => (by rw [hx] at h; cases h)⟩
    split at hf
    · split at hf
      · cases hf
      · cases hf
      · next ch hch =>
        have hcp := idna_prefix _ ch hch (splitHostPort_fst_prefix _ hnb')
        split at hf
        · cases hf
          apply vac
          split
          · exact prefix_append_colon ch _ hcp
          · exact hcp
        · cases hf; exact vac _ hnb'
    · cases hf; exact vac _ hnb'

theorem fixURL_Z (u u' : URL) (hf : fixURL u = .ok u') (hz : ZH u.host) : ZH u'.host ∧ B128 u'.host := by
  rw [fixURL_eq] at hf
  split at hf
  · cases hf
  · next h' hh =>
    cases hf
    rw [(fixRawQuery_host _).1]
    exact fixHost_Z _ _ _ hh hz

theorem hwp_prefix_rev (h : Bytes) (hp : hasPrefix (hwp h) [91] = true) : hasPrefix h [91] = true := by
  obtain ⟨opt, e, _⟩ := hwp_decomp h
  rw [e]; exact hasPrefix_append_left _ _ hp

theorem zshape_hwp (h : Bytes) (hp : hasPrefix h [91] = true) (hz : ZShape h) :
    ∃ p q, hwp h = p ++ q ++ [93] ∧ p.all legalB = true ∧ (37 : UInt8) ∉ p ∧ (q = [] ∨ ∃ t, q = 37 :: t) ∧
      q.all zoneB = true := by
  obtain ⟨p, q, opt, e, ho, hlp, h37, hq, hlq⟩ := hz
  have hwp' := zshape_w_prefix p q opt ho (by rw [← e]; exact hp)
  have := (decomp_port (p ++ q ++ [93]) opt (zshape_goodW p q hwp') ho).2
  refine ⟨p, q, ?_, hlp, h37, hq, hlq⟩
  rw [e, show p ++ q ++ 93 :: opt = (p ++ q ++ [93]) ++ opt by simp]; exact this

theorem clearURLPort_Z (u : URL) (hz : ZH u.host) (hb : B128 u.host) :
    ZH (clearURLPort u).host ∧ B128 (clearURLPort u).host := by
  show ZH (hostWithoutPort u) ∧ B128 (hostWithoutPort u)
  rw [hostWithoutPort_eq]
  constructor
  · intro hp
    have hp' := hwp_prefix_rev _ hp
    obtain ⟨p, q, e, hlp, h37, hq, hlq⟩ := zshape_hwp _ hp' (hz hp')
    exact ⟨p, q, [], by rw [e], rfl, hlp, h37, hq, hlq⟩
  · intro hp
    have hp' := hwp_prefix_rev _ hp
    rw [List.all_eq_true]
    intro c hc
    exact List.all_eq_true.1 (hb hp') c (hwp_sub _ c hc)

theorem clearURLPort_ZH (u : URL) (hz : ZH u.host) : ZH (clearURLPort u).host := by
  show ZH (hostWithoutPort u)
  rw [hostWithoutPort_eq]
  intro hp
  have hp' := hwp_prefix_rev _ hp
  obtain ⟨p, q, e, hlp, h37, hq, hlq⟩ := zshape_hwp _ hp' (hz hp')
  exact ⟨p, q, [], by rw [e], rfl, hlp, h37, hq, hlq⟩

theorem normPort_ZH (u : URL) (hz : ZH u.host) : ZH (normPort u).host := by
  unfold normPort
  split
  · split
    · exact clearURLPort_ZH u hz
    · split
      · exact clearURLPort_ZH u hz
      · exact hz
  · exact hz

theorem dropDefaultPort_Z (u : URL) (hz : ZH u.host) (hb : B128 u.host) :
    ZH (dropDefaultPort u).host ∧ B128 (dropDefaultPort u).host := by
  unfold dropDefaultPort
  split
  · split
    · exact clearURLPort_Z u hz hb
    · exact ⟨hz, hb⟩
  · exact ⟨hz, hb⟩

theorem digits_lt (ds : Bytes) (h : ds.all isDigit = true) : ds.all (· < 128) = true := by
  rw [List.all_eq_true] at h ⊢
  intro c hc
  have := byte_all (fun c => !isDigit c || decide (c < 128)) (by decide +kernel) c
  simp only [Bool.or_eq_true, Bool.not_eq_true'] at this
  rcases this with h0 | h0
  · rw [h c hc] at h0; cases h0
  · exact h0

theorem setURLPort_Z (u : URL) (v : PortArg) (hz : ZH u.host) (hb : B128 u.host) :
    ZH (setURLPort u v).host ∧ B128 (setURLPort u v).host := by
  unfold setURLPort
  split
  · exact ⟨hz, hb⟩
  · split
    split
    · exact clearURLPort_Z u hz hb
    · split
      · exact ⟨hz, hb⟩
      · split
        · exact clearURLPort_Z u hz hb
        · next portNum _ _ _ _ _ =>
          show ZH (hostWithoutPort u ++ 58 :: itoa portNum.toNat) ∧ B128 (hostWithoutPort u ++ 58 :: itoa portNum.toNat)
          rw [hostWithoutPort_eq]
          have hdig := (itoa_spec portNum.toNat).1
          have key : hasPrefix (hwp u.host ++ 58 :: itoa portNum.toNat) [91] = true → hasPrefix u.host [91] = true := by
            intro hp
            cases hq : hasPrefix (hwp u.host) [91] with
            | true => exact hwp_prefix_rev _ hq
            | false => rw [prefix_append_colon _ _ hq] at hp; cases hp
          constructor
          · intro hp
            have hp' := key hp
            obtain ⟨p, q, e, hlp, h37, hq, hlq⟩ := zshape_hwp _ hp' (hz hp')
            exact ⟨p, q, 58 :: itoa portNum.toNat, by rw [e]; simp, by rw [validOptionalPort_cons]; exact hdig,
              hlp, h37, hq, hlq⟩
          · intro hp
            have hp' := key hp
            rw [List.all_append, Bool.and_eq_true]
            constructor
            · rw [List.all_eq_true]
              intro c hc
              exact List.all_eq_true.1 (hb hp') c (hwp_sub _ c hc)
            · simp only [List.all_cons, Bool.and_eq_true]
              exact ⟨by decide, digits_lt _ hdig⟩

theorem normalizeURL_Z (v u' : URL) (h : normalizeURL v = .ok u') (hz : ZH v.host) : ZH u'.host ∧ B128 u'.host := by
  obtain ⟨_, hf⟩ := normalizeURL_ok v u' h
  exact fixURL_Z _ _ hf (normPort_ZH v hz)

theorem parseURL_Z (s : Bytes) (b : Bool) (u : URL) (hp : parseURL s b = .ok u) : ZH u.host ∧ B128 u.host := by
  unfold parseURL at hp
  split at hp
  · cases hp
  · next p hpp =>
    split at hp
    · cases hp
    · exact normalizeURL_Z _ _ hp (Parse_ZH s p hpp)

theorem construct_Z (s : Bytes) (base : Option Bytes) (u : URL) (h : construct s base = .ok u) :
    ZH u.host ∧ B128 u.host := by
  unfold construct at h
  split at h
  · exact parseURL_Z _ _ _ h
  · simp only [bind, Except.bind] at h
    split at h
    · cases h
    · next baseU hb =>
      split at h
      · cases h
      · next ref hr =>
        split at h
        · exact parseURL_Z _ _ _ h
        · refine normalizeURL_Z _ _ h ?_
          show ZH (resolveReference baseU ref).host
          rcases resolveReference_host baseU ref with e | e | e
          · rw [e]; exact Parse_ZH _ _ hr
          · rw [e]; exact ZH_nil
          · rw [e]; exact (parseURL_Z _ _ _ hb).1

theorem z_step (st st' : St) (op : Op) (hi : ZH st.url.host ∧ B128 st.url.host) (h : step st op = .ok st') :
    ZH st'.url.host ∧ B128 st'.url.host := by
  cases op with
  | set p v =>
    cases p with
    | href =>
      simp only [step, bind, Except.bind, pure, Except.pure] at h
      generalize hp : parseURL v true = r at h
      cases r with
      | error e => cases h
      | ok u =>
        simp only [Except.ok.injEq] at h
        subst h
        have hu := parseURL_Z _ _ _ hp
        unfold St.refreshParams
        split <;> exact hu
    | protocol =>
      rcases step_protocol st st' v h with e | ⟨s, u, hf, e⟩
      · rw [e]; exact hi
      · subst e
        have := fixURL_Z _ u hf hi.1
        exact dropDefaultPort_Z u this.1 this.2
    | host =>
      rcases step_host st st' v h with e | ⟨hv, u, hf, e⟩
      · rw [e]; exact hi
      · subst e
        obtain ⟨p, hp, hph, _, _⟩ := validHost_ok2 _ _ hv
        have hl := ParseRequestURI_ZH _ _ hp
        rw [hph] at hl
        have := fixURL_Z _ u hf hl
        exact dropDefaultPort_Z u this.1 this.2
    | hostname =>
      rcases step_hostname st st' v h with e | ⟨hc, hv, u, hf, e⟩
      · rw [e]; exact hi
      · subst e
        obtain ⟨p, hp, hph, _, _⟩ := validHost_ok2 _ _ hv
        have hl := ParseRequestURI_ZH _ _ hp
        rw [hph] at hl
        refine fixURL_Z _ u hf ?_
        show ZH (if (st.url.port != []) = true then v ++ 58 :: st.url.port else v)
        split
        · intro hpre
          have hvp : hasPrefix v [91] = true := by
            cases hq : hasPrefix v [91] with
            | true => rfl
            | false => rw [prefix_append_colon v _ hq] at hpre; cases hpre
          obtain ⟨p', q, opt, e, ho, hlp, h37, hq, hlq⟩ := hl hvp
          have hopt : opt = [] := by
            rcases validOptionalPort_cases opt ho with e1 | ⟨ds, e1, _⟩
            · exact e1
            · exfalso
              have : (58 : UInt8) ∈ v := by rw [e, e1]; simp
              simp [this] at hc
          subst hopt
          exact ⟨p', q, 58 :: st.url.port, by rw [e]; simp,
            by rw [validOptionalPort_cons]; exact (portOf_spec _).1, hlp, h37, hq, hlq⟩
        · exact hl
    | search =>
      simp only [step, pure, Except.pure, Except.ok.injEq] at h
      subst h
      have : ZH (fixRawQuery { st.url with rawQuery := trimPrefix v [63] }).host ∧
          B128 (fixRawQuery { st.url with rawQuery := trimPrefix v [63] }).host := by
        rw [(fixRawQuery_host _).1]; exact hi
      unfold St.refreshParams
      split <;> exact this
    | port =>
      simp only [step, pure, Except.pure, Except.ok.injEq] at h
      subst h
      exact setURLPort_Z _ _ hi.1 hi.2
    | username | password | pathname | hash =>
      simp only [step, pure, Except.pure, Except.ok.injEq] at h
      subst h
      exact hi
  | setPort v =>
    simp only [step, pure, Except.pure, Except.ok.injEq] at h
    subst h
    exact setURLPort_Z _ _ hi.1 hi.2
  | getSP =>
    simp only [step, pure, Except.pure] at h
    split at h <;> cases h <;> exact hi
  | spAppend k v | spDelete k v | spSet k v | spSort =>
    simp only [step, pure, Except.pure, Except.ok.injEq] at h
    subst h
    unfold St.markUpdated
    split <;> exact hi

theorem z_reach (st : St) (h : Reach st) : ZH st.url.host ∧ B128 st.url.host := by
  induction h with
  | ctor s base u hc => exact construct_Z s base u hc
  | step st st' op _ hs ih => exact z_step st st' op ih hs
  | read st _ ih =>
    show ZH st.sync.url.host ∧ B128 st.sync.url.host
    rw [(sync_url_fields st).1]; exact ih

theorem lay_of_rinv3 (u : URL) (hi : RInv u) (hq : escapeQuery u.rawQuery = u.rawQuery)
    (hs : validScheme u.scheme = true) (hl : LegalH u.host) (hz : ZH u.host) (hb : B128 u.host) (hr : RawOK u) :
    Lay u := by
  refine ⟨hs, hi.lower, fun hne => (hi.opaq hne).1, ?_, hr, hq, ?_⟩
  · have := cleanPath_form u.path u.scheme
    rw [hi.path] at this
    rcases this with h | h
    · exact Or.inl h
    · exact Or.inr (cleanForm_shape _ h)
  · obtain ⟨w, opt, hd, _, _, hbr, _⟩ := hi.host
    cases hp : hasPrefix u.host [91] with
    | true =>
      have hne : (u.host != []) = true := by
        cases hh : u.host with
        | nil => rw [hh] at hp; simp [hasPrefix] at hp
        | cons c t => rfl
      unfold hostStr
      rw [if_pos hne]
      exact parseHost_zone _ hp (hz hp) (hb hp)
    | false =>
      unfold hostStr
      split
      · exact parseHost_legal _ w opt (hl hp) hp hd
      · next hne => simp at hne; rw [hne]; exact parseHost_nil

/-- **"href can be parsed again by `new URL()` and yields the same href"**, for every reachable state of the URL
object (with the repaired `protocol` setter) -/
theorem reparseStable : ReparseStable := by
  intro st hr
  obtain ⟨a, b, _, _, e⟩ := sync_url_fields st
  have hi := rinv_sync st (rinv_reach st hr)
  have hq := (qinv_sync st (qinv_reach st hr)).1
  have hz := z_reach st hr
  have : ReparseOK st := by
    apply reparseOK_of st
    · apply lay_of_rinv3 _ hi hq (by rw [b]; exact scheme_reach st hr) (by rw [a]; exact legalH_reach st hr)
        (by rw [a]; exact hz.1) (by rw [a]; exact hz.2)
      unfold RawOK; rw [e]; exact raw_reach st hr
    · exact normOK_of_rinv _ hi
  exact this

end GN.Url.Obj
