import GN.Url.ObjSpec

/-!
# C13: "href can be parsed again by new URL() and yields the same href" — the statement

Only the statement; the proof (or the strongest partial version) is in `GN/Url/ReparseLemmas.lean`.
-/

namespace GN.Url.Obj
open GN GN.Url GN.Url.Net

/-- in every reachable state, feeding the shown `href` to the one-argument constructor succeeds (or leaves the
punycode model: no claim) and the URL it builds shows the same `href` -/
def ReparseStable : Prop :=
  ∀ st, Reach st →
    match construct (observe st).2.href none with
    | .ok u' => (observe { url := u' }).2.href = (observe st).2.href
    | .error .noclaim => True
    | .error _ => False

end GN.Url.Obj
