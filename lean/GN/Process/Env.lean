import GN.Basic

/-!
# process.env — model and specification   [C20]

Model: `process.Require` splits every entry of `os.Environ()` at the first `=` (entries without `=`
are skipped, after the fix) into a fresh Go map per loader invocation, i.e. per runtime; JavaScript
writes and deletes act on that runtime's map only.
-/

namespace GN.Process
open GN

abbrev Bytes := List UInt8

/-- `strings.SplitN(e, "=", 2)`: `none` when there is no `=` -/
def splitEnv : Bytes → Option (Bytes × Bytes)
  | [] => none
  | c :: cs =>
    if c = 61 then some ([], cs)
    else match splitEnv cs with
      | some (k, v) => some (c :: k, v)
      | none => none

abbrev EnvMap := List (Bytes × Bytes)

def lookup (m : EnvMap) (k : Bytes) : Option Bytes :=
  match m with
  | [] => none
  | (k', v) :: rest => if k' = k then some v else lookup rest k

def erase (m : EnvMap) (k : Bytes) : EnvMap := m.filter (·.1 ≠ k)

/-- Go map assignment `m[k] = v` -/
def put (m : EnvMap) (k v : Bytes) : EnvMap := (k, v) :: erase m k

/-- the loop of `process.Require` over `os.Environ()` -/
def snapshot (env : List Bytes) : EnvMap :=
  env.foldl (fun m e => match splitEnv e with
    | some (k, v) => put m k v
    | none => m) []

inductive Op where
  | set (k v : Bytes)
  | del (k : Bytes)
  deriving Repr, DecidableEq, Inhabited

def applyOp (m : EnvMap) : Op → EnvMap
  | .set k v => put m k v
  | .del k => erase m k

/-- several runtimes, each with the map its own loader invocation created -/
structure World where
  host : List Bytes
  rts : List EnvMap
  deriving Repr, Inhabited

def World.init (host : List Bytes) (n : Nat) : World := ⟨host, List.replicate n (snapshot host)⟩

/-- a JavaScript write/delete in runtime `i` -/
def World.step (w : World) (i : Nat) (op : Op) : World :=
  { w with rts := w.rts.modify i (fun m => applyOp m op) }

def World.run (w : World) (ops : List (Nat × Op)) : World :=
  ops.foldl (fun w (i, op) => w.step i op) w

/-! ## the host changes its own environment; runtimes are created at different times -/

def nameOf (e : Bytes) : Option Bytes := (splitEnv e).map (·.1)

/-- `os.Setenv(k, v)` as seen through `os.Environ()`: the entry of that name is replaced, else one is appended -/
def hostSet (env : List Bytes) (k v : Bytes) : List Bytes :=
  if env.any (fun e => nameOf e == some k) then env.map (fun e => if nameOf e == some k then k ++ 61 :: v else e)
  else env ++ [k ++ 61 :: v]

/-- `os.Unsetenv(k)` -/
def hostDel (env : List Bytes) (k : Bytes) : List Bytes := env.filter (fun e => nameOf e != some k)

inductive WOp where
  | js (i : Nat) (op : Op)        -- a write / delete from JavaScript in runtime i
  | hostSet (k v : Bytes)         -- the embedding program changes its environment
  | hostDel (k : Bytes)
  | newRuntime                    -- a new runtime requires the process module for the first time now
  deriving Repr, Inhabited

def World.stepW (w : World) : WOp → World
  | .js i op => w.step i op
  | .hostSet k v => { w with host := hostSet w.host k v }
  | .hostDel k => { w with host := hostDel w.host k }
  | .newRuntime => { w with rts := w.rts ++ [snapshot w.host] }

def World.runW (w : World) (ops : List WOp) : World := ops.foldl World.stepW w

/-! ## specification -/

/-- the variable named `k` in a host environment: value of the *last* entry `k=…` (Go map semantics; names in
    `os.Environ()` are distinct in practice) -/
def hostValue (env : List Bytes) (k : Bytes) : Option Bytes :=
  env.foldl (fun acc e => match splitEnv e with
    | some (k', v) => if k' = k then some v else acc
    | none => acc) none

end GN.Process
