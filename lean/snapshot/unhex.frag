def unhex (c : UInt8) : UInt8 :=
  if (decide ((48 : UInt8) ≤ c) && decide (c ≤ (57 : UInt8))) then (c - (48 : UInt8)) else
  if (decide ((97 : UInt8) ≤ c) && decide (c ≤ (102 : UInt8))) then ((c - (97 : UInt8)) + (10 : UInt8)) else
  if (decide ((65 : UInt8) ≤ c) && decide (c ≤ (70 : UInt8))) then ((c - (65 : UInt8)) + (10 : UInt8)) else
  (0 : UInt8)
