def msToDuration (ms : I64) : I64 :=
  let maxMs : I64 := (BitVec.sdiv (9223372036854775807 : I64) (1000000 : I64))
  if (BitVec.slt maxMs ms) then (9223372036854775807 : I64) else
  if (BitVec.slt ms (-(maxMs))) then (-(9223372036854775808 : I64)) else
  (ms * (1000000 : I64))
