structure Access where
  fn : String
  field : String
  write : Bool
  atomic : Bool
  locks : List String
  deriving Repr, DecidableEq

def elAccesses : List Access := [
  ⟨"EnableConsole$lit1", "enableConsole", true, false, []⟩,
  ⟨"EventLoop.Run", "vm", false, false, []⟩,
  ⟨"EventLoop.RunOnLoop$lit1", "vm", false, false, []⟩,
  ⟨"EventLoop.SetInterval$lit1", "vm", false, false, []⟩,
  ⟨"EventLoop.SetInterval$lit2", "jobCount", true, false, []⟩,
  ⟨"EventLoop.SetInterval$lit2", "jobs", false, false, []⟩,
  ⟨"EventLoop.SetInterval$lit2", "jobs", true, false, []⟩,
  ⟨"EventLoop.SetTimeout$lit1", "vm", false, false, []⟩,
  ⟨"EventLoop.SetTimeout$lit2", "jobCount", true, false, []⟩,
  ⟨"EventLoop.SetTimeout$lit2", "jobs", false, false, []⟩,
  ⟨"EventLoop.SetTimeout$lit2", "jobs", true, false, []⟩,
  ⟨"EventLoop.Stop", "canRun", true, true, ["stopLock"]⟩,
  ⟨"EventLoop.Stop", "jobCount", false, false, []⟩,
  ⟨"EventLoop.Stop", "running", false, false, ["stopLock"]⟩,
  ⟨"EventLoop.StopNoWait", "canRun", true, true, ["stopLock"]⟩,
  ⟨"EventLoop.StopNoWait", "running", false, false, ["stopLock"]⟩,
  ⟨"EventLoop.Terminate", "jobCount", true, false, []⟩,
  ⟨"EventLoop.Terminate", "jobs", false, false, []⟩,
  ⟨"EventLoop.Terminate", "terminated", true, false, ["auxJobsLock"]⟩,
  ⟨"EventLoop.addAuxJob", "auxJobs", false, false, ["auxJobsLock"]⟩,
  ⟨"EventLoop.addAuxJob", "auxJobs", true, false, ["auxJobsLock"]⟩,
  ⟨"EventLoop.addAuxJob", "terminated", false, false, ["auxJobsLock"]⟩,
  ⟨"EventLoop.clearImmediate", "jobCount", true, false, []⟩,
  ⟨"EventLoop.clearInterval", "jobCount", true, false, []⟩,
  ⟨"EventLoop.clearTimeout", "jobCount", true, false, []⟩,
  ⟨"EventLoop.doImmediate", "jobCount", true, false, []⟩,
  ⟨"EventLoop.doTimeout", "jobCount", true, false, []⟩,
  ⟨"EventLoop.removeJob", "jobs", false, false, []⟩,
  ⟨"EventLoop.removeJob", "jobs", true, false, []⟩,
  ⟨"EventLoop.run", "canRun", false, true, []⟩,
  ⟨"EventLoop.run", "jobCount", false, false, []⟩,
  ⟨"EventLoop.run", "jobCount", true, false, []⟩,
  ⟨"EventLoop.run", "running", true, false, ["stopLock"]⟩,
  ⟨"EventLoop.runAux", "auxJobs", false, false, ["auxJobsLock"]⟩,
  ⟨"EventLoop.runAux", "auxJobs", true, false, ["auxJobsLock"]⟩,
  ⟨"EventLoop.runAux", "auxJobsSpare", false, false, ["auxJobsLock"]⟩,
  ⟨"EventLoop.runAux", "auxJobsSpare", true, false, []⟩,
  ⟨"EventLoop.schedule", "jobCount", true, false, []⟩,
  ⟨"EventLoop.schedule", "jobs", false, false, []⟩,
  ⟨"EventLoop.schedule", "jobs", true, false, []⟩,
  ⟨"EventLoop.schedule", "vm", false, false, []⟩,
  ⟨"EventLoop.setImmediate", "jobCount", true, false, []⟩,
  ⟨"EventLoop.setImmediate", "vm", false, false, []⟩,
  ⟨"EventLoop.setRunning", "canRun", true, true, ["stopLock"]⟩,
  ⟨"EventLoop.setRunning", "running", false, false, ["stopLock"]⟩,
  ⟨"EventLoop.setRunning", "running", true, false, ["stopLock"]⟩,
  ⟨"EventLoop.setRunning", "terminated", true, false, ["auxJobsLock", "stopLock"]⟩,
  ⟨"NewEventLoop", "enableConsole", false, false, []⟩,
  ⟨"NewEventLoop", "registry", false, false, []⟩,
  ⟨"NewEventLoop", "registry", true, false, []⟩,
  ⟨"NewEventLoop", "stopCond", true, false, []⟩,
  ⟨"NewEventLoop", "stopLock", false, false, []⟩,
  ⟨"WithRegistry$lit1", "registry", true, false, []⟩
]

def jobAccesses : List Access := [
  ⟨"EventLoop.SetInterval$lit2", "idx", true, false, []⟩,
  ⟨"EventLoop.SetTimeout$lit2", "idx", true, false, []⟩,
  ⟨"EventLoop.Terminate", "cancel", false, false, []⟩,
  ⟨"EventLoop.Terminate", "cancelled", false, false, []⟩,
  ⟨"EventLoop.Terminate", "cancelled", true, false, []⟩,
  ⟨"EventLoop.clearImmediate", "cancelled", false, false, []⟩,
  ⟨"EventLoop.clearImmediate", "cancelled", true, false, []⟩,
  ⟨"EventLoop.clearInterval", "cancelled", false, false, []⟩,
  ⟨"EventLoop.clearInterval", "cancelled", true, false, []⟩,
  ⟨"EventLoop.clearTimeout", "cancelled", false, false, []⟩,
  ⟨"EventLoop.clearTimeout", "cancelled", true, false, []⟩,
  ⟨"EventLoop.doImmediate", "cancelled", false, false, []⟩,
  ⟨"EventLoop.doImmediate", "cancelled", true, false, []⟩,
  ⟨"EventLoop.doImmediate", "fn", false, false, []⟩,
  ⟨"EventLoop.doInterval", "cancelled", false, false, []⟩,
  ⟨"EventLoop.doInterval", "fn", false, false, []⟩,
  ⟨"EventLoop.doTimeout", "cancelled", false, false, []⟩,
  ⟨"EventLoop.doTimeout", "cancelled", true, false, []⟩,
  ⟨"EventLoop.doTimeout", "fn", false, false, []⟩,
  ⟨"EventLoop.newInterval", "cancel", true, false, []⟩,
  ⟨"EventLoop.newTimeout", "cancel", true, false, []⟩,
  ⟨"EventLoop.removeJob", "idx", false, false, []⟩,
  ⟨"EventLoop.removeJob", "idx", true, false, []⟩,
  ⟨"EventLoop.schedule", "idx", true, false, []⟩,
  ⟨"Interval.doCancel", "stopChan", false, false, []⟩,
  ⟨"Interval.run", "ticker", false, false, []⟩,
  ⟨"Interval.start", "ticker", true, false, []⟩,
  ⟨"Timer.doCancel", "timer", false, false, []⟩,
  ⟨"Timer.start", "timer", true, false, []⟩
]

def eventLoopFields : List String := ["vm", "jobChan", "jobs", "jobCount", "canRun", "auxJobsLock", "wakeupChan", "auxJobsSpare", "auxJobs", "stopLock", "stopCond", "running", "terminated", "enableConsole", "registry"]

def registryFields : List String := ["sync.Mutex", "native", "compiled", "srcLoader", "pathResolver", "globalFolders"]

def requireModuleFields : List String := ["r", "runtime", "modules", "nativeModules", "resolved", "nodeModules"]

def getCompiledSourceHoldsLock : Bool := true
