def ensureWithinUInt32Range (value : I64) : Bool :=
  if ((BitVec.slt value (0 : I64)) || (BitVec.slt (4294967295 : I64) value)) then false else
  true
