def nodePrefix : String := "node:"
