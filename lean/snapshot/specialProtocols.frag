def specialProtocols : List String := ["ftp", "file", "http", "https", "ws", "wss"]
