def formatDirectives : List String := ["s", "d", "j", "%"]
