def ensureWithinUIntRange (byteLength : I64) (value : I64) : Bool :=
  let maxValue : I64 := (((1 : I64) <<< ((8 : I64) * byteLength)) - (1 : I64))
  if ((BitVec.slt value (0 : I64)) || (BitVec.slt maxValue value)) then false else
  true
