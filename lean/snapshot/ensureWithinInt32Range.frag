def ensureWithinInt32Range (value : I64) : Bool :=
  if ((BitVec.slt value (-(2147483648 : I64))) || (BitVec.slt (2147483647 : I64) value)) then false else
  true
