def ensureWithinIntRange (byteLength : I64) (value : I64) : Bool :=
  let bits : I64 := (byteLength * (8 : I64))
  let minValue : I64 := (-(((1 : I64) <<< (bits - (1 : I64)))))
  let maxValue : I64 := (((1 : I64) <<< (bits - (1 : I64))) - (1 : I64))
  if ((BitVec.slt value minValue) || (BitVec.slt maxValue value)) then false else
  true
