def getOffsetArgument_guard (numBytes : I64) (offset : I64) (len_bb : I64) : Bool :=
  if ((BitVec.slt offset (0 : I64)) || (BitVec.slt (len_bb - numBytes) offset)) then false else
  true
