def ensureWithinUInt16Range (value : I64) : Bool :=
  if ((BitVec.slt value (0 : I64)) || (BitVec.slt (65535 : I64) value)) then false else
  true
