def signExtend (value : I64) (numBytes : I64) : I64 :=
  (BitVec.sshiftRight' (value <<< ((64 : I64) - ((8 : I64) * numBytes))) ((64 : I64) - ((8 : I64) * numBytes)))
