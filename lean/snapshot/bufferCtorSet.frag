def bufferCtorSet : List (String × String) := [("prototype", "proto"), ("poolSize", "8192"), ("from", "from"), ("alloc", "alloc")]
