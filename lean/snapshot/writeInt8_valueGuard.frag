def writeInt8_valueGuard (value : I64) : Bool :=
  if ((BitVec.slt value (-(128 : I64))) || (BitVec.slt (127 : I64) value)) then false else true
