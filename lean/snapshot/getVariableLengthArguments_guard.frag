def getVariableLengthArguments_guard (offset : I64) (byteLength : I64) (len_bb : I64) : Bool :=
  if ((BitVec.slt byteLength (1 : I64)) || (BitVec.slt (6 : I64) byteLength)) then false else
  if ((BitVec.slt offset (0 : I64)) || (BitVec.slt (len_bb - byteLength) offset)) then false else
  true
