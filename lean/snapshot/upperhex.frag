def upperhex : String := "0123456789ABCDEF"
