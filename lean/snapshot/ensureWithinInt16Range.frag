def ensureWithinInt16Range (value : I64) : Bool :=
  if ((BitVec.slt value (-(32768 : I64))) || (BitVec.slt (32767 : I64) value)) then false else
  true
