def ishex (c : UInt8) : Bool :=
  if (decide ((48 : UInt8) ≤ c) && decide (c ≤ (57 : UInt8))) then true else
  if (decide ((97 : UInt8) ≤ c) && decide (c ≤ (102 : UInt8))) then true else
  if (decide ((65 : UInt8) ≤ c) && decide (c ≤ (70 : UInt8))) then true else
  false
