def writeUInt8_valueGuard (value : I64) : Bool :=
  if ((BitVec.slt value (0 : I64)) || (BitVec.slt (255 : I64) value)) then false else true
