def specialNetProtocols : List String := ["https", "http", "ftp", "wss", "ws"]
