def defaultPorts : List (Nat × List String) := [(21, ["ftp"]), (80, ["http", "ws"]), (443, ["https", "wss"])]
