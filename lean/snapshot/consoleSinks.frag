def consoleSinks : List (String × String) := [("log", "Log"), ("error", "Error"), ("warn", "Warn"), ("info", "Log"), ("debug", "Log")]
