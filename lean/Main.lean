import GN.Driver.C09
import GN.Driver.C10
import GN.Driver.C11
import GN.Driver.C12
import GN.Driver.C16
import GN.Driver.C18
import GN.Driver.C19
import GN.Driver.C20
import GN.Driver.Req
import GN.Driver.EL
import GN.Driver.Url

/-! Line-protocol driver: one verdict line per case line read from stdin. -/

open GN

def dispatch (line : String) : String :=
  if line.startsWith "#" then "COMMENT" else
  match (line.trimAscii.toString.splitOn " ").filter (· != "") with
  | "C09" :: rest => GN.Driver.C09.handle rest
  | "C10" :: rest => GN.Driver.C10.handle rest
  | "C11" :: rest => GN.Driver.C11.handle rest
  | "C12" :: rest => GN.Driver.C12.handle rest
  | "C13" :: rest => GN.Driver.Url.handleC13 rest
  | "C14" :: rest => GN.Driver.Url.handleC14 rest
  | "C17" :: rest => GN.Driver.C09.handle17 rest
  | "C16" :: rest => GN.Driver.C16.handle rest
  | "C18" :: rest => GN.Driver.C18.handle rest
  | "C19" :: rest => GN.Driver.C19.handle rest
  | "C20" :: rest => GN.Driver.C20.handle rest
  | "REQ" :: rest => GN.Driver.Req.handle rest
  | "EL" :: rest => GN.Driver.EL.handle rest
  | "ELF" :: rest => GN.Driver.EL.handleFlood rest
  | [] => "EMPTY"
  | _ => "BADLINE unknown-tag"

partial def loop (h : IO.FS.Stream) (out : IO.FS.Stream) : IO Unit := do
  let line ← h.getLine
  if line.isEmpty then return ()
  out.putStrLn (dispatch line)
  loop h out

def main : IO Unit := do
  let stdin ← IO.getStdin
  let stdout ← IO.getStdout
  loop stdin stdout
  stdout.flush
