import GN.Basic
import GN.Generated.BufferKernels
import GN.Generated.BufferMethods
import GN.Generated.UrlTables
import GN.Generated.Misc
import GN.Buffer.Num
