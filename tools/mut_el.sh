#!/bin/bash
# usage: mut_el.sh '<python expr replacing s>'  -- applies a textual mutation to eventloop.go, runs el-sched, reverts
set -e
trap 'git -C /repo checkout -- eventloop/eventloop.go' EXIT
export GOFLAGS=-mod=mod GOPROXY=off GOSUMDB=off GOTOOLCHAIN=local
cd /repo
python3 - "$1" "$2" <<'PY'
import sys
p='eventloop/eventloop.go'
s=open(p).read()
old,new=sys.argv[1],sys.argv[2]
assert s.count(old)>=1, "pattern not found"
s=s.replace(old,new,1)
open(p,'w').write(s)
PY
cd /verif/harness && go build -tags verif -o /tmp/el-sched-mut ./cmd/el-sched; cd /repo && git checkout -- eventloop/eventloop.go
timeout 120 /tmp/el-sched-mut -n ${N:-150} -seed 3 > /tmp/elmut.cases || true
/verif/lean/.lake/build/bin/gndriver < /tmp/elmut.cases | grep -v COMMENT | cut -c1-200 | sed 's/@event#[0-9]*.*//' | sort | uniq -c | sort -rn | head -6
