#!/bin/bash
# usage: seed_try.sh <worktree> <out_dir>/<name> <demo pkg dir (e.g. eventloop)> <-run regex> <props...>
# 1. confirms in the scratch worktree: suite passes with the patch; demo fails with it and passes without it
# 2. applies the patch to /repo, runs the given checks, reverts
export GOFLAGS=-mod=mod GOPROXY=off GOSUMDB=off GOTOOLCHAIN=local
wt="$1"; sd="$2"; pkg="$3"; rx="$4"; shift 4
cd "$wt" && git checkout -q -- . && git clean -fdq
demos=$(ls "$sd"/*_test.go 2>/dev/null)
echo "--- without the change: demo"
cp $demos "$wt/$pkg/" 2>/dev/null
(cd "$wt" && timeout 300 go test -vet=off -count=1 -run "$rx" -timeout 120s ./$pkg/ 2>&1 | tail -3)
echo "--- with the change: suite and demo"
git apply "$sd/patch.diff" || { echo "patch does not apply"; exit 1; }
(cd "$wt" && go build ./... && go build -tags verif ./... && rm -f $pkg/*_demo_test.go $(for d in $demos; do echo $pkg/$(basename $d); done) && timeout 600 go test -vet=off -count=1 ./... 2>&1 | grep -v "no test files" | tail -8)
cp $demos "$wt/$pkg/" 2>/dev/null
(cd "$wt" && timeout 300 go test -vet=off -count=1 -run "$rx" -timeout 120s ./$pkg/ 2>&1 | tail -4)
cd "$wt" && git checkout -q -- . && git clean -fdq
echo "--- checks against /repo with the change"
trap 'git -C /repo checkout -q -- . ; git -C /repo clean -fdq' EXIT
git -C /repo apply "$sd/patch.diff" || exit 1
# evidence/ must keep describing the unchanged tree: runs against a changed tree do not overwrite it
rm -rf /verif/work/evidence.bak && cp -r /verif/evidence /verif/work/evidence.bak
for p in "$@"; do
  out=$(cd /verif && ./check $p 2>&1)
  echo "$p: $(echo "$out" | grep -c '^VIOLATION') VIOLATION line(s) | $(echo "$out" | grep '^VIOLATION' | head -1) | $(echo "$out" | tail -1 | cut -c1-200)"
done
rm -rf /verif/evidence && mv /verif/work/evidence.bak /verif/evidence
