#!/bin/bash
# usage: seed_iso.sh <worktree of /repo with the change applied> <props...>
# Runs the given checks against the worktree from a private copy of /verif (so /repo, /verif/evidence and
# /verif/lean/GN/Generated are not touched and several seeds can be tried at once).  Prints one line per check.
# The registered checks never use this path: they always build against /repo.
wt="$(realpath "$1")"; shift
copy="/tmp/verif-iso-$$"
rsync -a --exclude .git --exclude replays --exclude 'work/*.cases' --exclude 'work/*.verdicts' /verif/ "$copy"/
trap 'rm -rf "$copy"' EXIT
for p in "$@"; do
  out=$(cd "$copy" && VERIF_REPO="$wt" ./check $p 2>&1)
  echo "$p: $(echo "$out" | grep -c '^VIOLATION') VIOLATION line(s) | $(echo "$out" | grep '^VIOLATION' | head -1 | sed "s#$copy#/verif#") | $(echo "$out" | tail -1 | cut -c1-200)"
  if [ -n "$KEEP_REPLAY" ]; then mkdir -p "$KEEP_REPLAY"; cp "$copy"/replays/* "$KEEP_REPLAY"/ 2>/dev/null; fi
done
