#!/usr/bin/env python3
"""Orchestrator for the /verif checks (python3, stdlib only).

  ./check <PROP> [--tier quick|thorough] [--replay FILE]
  ./check --setup

One run of a property check:
  1. verif-extract regenerates lean/GN/Generated from /repo's working tree (tie a);
  2. `lake build` of the driver (models only) and of the property's theorem module; `#print axioms`
     audit of every property theorem; grep for sorry/axiom/native_decide…;
  3. the Go harness for the property is rebuilt from /repo (with -tags verif) and run; its case lines
     are judged by the Lean driver (model = implementation? specification holds on the implementation's answer?);
  4. decision, evidence file, replay files, VIOLATION / KNOWN-FINDING lines.
"""
import fcntl
import json
import os
import re
import subprocess
import sys
import time

VERIF = os.path.dirname(os.path.dirname(os.path.abspath(__file__)))
REPO = os.environ.get("VERIF_REPO", "/repo")
LEAN = os.path.join(VERIF, "lean")
HARNESS = os.path.join(VERIF, "harness")
WORK = os.path.join(VERIF, "work")
BIN = os.path.join(WORK, "bin")
REPLAYS = os.path.join(VERIF, "replays")
EVIDENCE = os.path.join(VERIF, "evidence")
DRIVER = os.path.join(LEAN, ".lake", "build", "bin", "gndriver")

ALLOWED_AXIOMS = {"propext", "Classical.choice", "Quot.sound"}
FORBIDDEN = re.compile(r"\bsorry\b|\badmit\b|^\s*axiom\s|native_decide|bv_decide|implemented_by|\bunsafe\s|maxHeartbeats\s+0")


def goenv():
    e = dict(os.environ)
    e.update({"GOFLAGS": "-mod=mod", "GOPROXY": "off", "GOSUMDB": "off", "GOTOOLCHAIN": "local",
              "CGO_ENABLED": e.get("CGO_ENABLED", "1")})
    return e


def run(cmd, cwd=None, env=None, timeout=None, stdin=None):
    p = subprocess.run(cmd, cwd=cwd, env=env, timeout=timeout, stdin=stdin,
                       stdout=subprocess.PIPE, stderr=subprocess.STDOUT, text=True, errors="replace")
    return p.returncode, p.stdout


class Lock:
    def __init__(self, name="build"):
        os.makedirs(WORK, exist_ok=True)
        self.path = os.path.join(WORK, "." + name + ".lock")

    def __enter__(self):
        self.f = open(self.path, "w")
        fcntl.flock(self.f, fcntl.LOCK_EX)
        return self

    def __exit__(self, *a):
        fcntl.flock(self.f, fcntl.LOCK_UN)
        self.f.close()


def sync_gosum():
    src = os.path.join(REPO, "go.sum")
    dst = os.path.join(HARNESS, "go.sum")
    try:
        s = open(src).read()
        if not os.path.exists(dst) or open(dst).read() != s:
            open(dst, "w").write(s)
    except OSError:
        pass


def go_build(target, out, tags="verif", race=False):
    """build ./cmd/<target> of the harness module against /repo's current working tree"""
    os.makedirs(BIN, exist_ok=True)
    sync_gosum()
    cmd = ["go", "build"] + (["-race"] if race else []) + altmod() + ["-tags", tags, "-o", out, "./cmd/" + target]
    return run(cmd, cwd=HARNESS, env=goenv(), timeout=600)


def altmod():
    """VERIF_REPO=<dir> (scratch worktrees for seeded changes): build the harness against that tree through an
    alternative go.mod; the registered checks never set it and build against /repo"""
    if REPO == "/repo":
        return []
    alt = os.path.join(WORK, "go.alt.mod")
    src = open(os.path.join(HARNESS, "go.mod")).read().replace("=> /repo", "=> " + REPO)
    open(alt, "w").write(src)
    try:
        open(os.path.join(WORK, "go.alt.sum"), "w").write(open(os.path.join(REPO, "go.sum")).read())
    except OSError:
        pass
    return ["-modfile=" + alt]


def extract():
    """tie (a): regenerate lean/GN/Generated from the source; returns (ok, status list, log)"""
    out = os.path.join(BIN, "verif-extract")
    rc, log = go_build("verif-extract", out, tags="verif")
    if rc != 0:
        return False, [], "go build verif-extract failed:\n" + log
    status = os.path.join(WORK, "extract_status.json")
    rc, log = run([out, "-repo", REPO, "-out", os.path.join(LEAN, "GN", "Generated"),
                   "-snapshot", os.path.join(LEAN, "snapshot"), "-status", status], timeout=120)
    if rc != 0:
        return False, [], log
    try:
        st = json.load(open(status))
    except Exception:
        st = []
    return True, st, log


def lake_build(targets, timeout=3000):
    return run(["lake", "build"] + targets, cwd=LEAN, timeout=timeout)


def lean_file(path, timeout=900):
    return run(["lake", "env", "lean", path], cwd=LEAN, timeout=timeout)


def audit(prop):
    """run GN/Audit/<prop>.lean; returns (theorems: {name: [axioms]}, log, ok)"""
    path = os.path.join("GN", "Audit", prop + ".lean")
    if not os.path.exists(os.path.join(LEAN, path)):
        return {}, "no audit file", False
    rc, log = lean_file(path)
    thms = {}
    # "'name' depends on axioms: [a, b]"  |  "'name' does not depend on any axioms"
    for m in re.finditer(r"'([^']+)' depends on axioms: \[([^\]]*)\]", log, re.S):
        thms[m.group(1)] = [a.strip() for a in m.group(2).replace("\n", " ").split(",") if a.strip()]
    for m in re.finditer(r"'([^']+)' does not depend on any axioms", log):
        thms[m.group(1)] = []
    return thms, log, rc == 0


def pin_status(prop):
    """transcription pins of a property: (module or None, [declarations whose digest differs from the pinned one])"""
    f = os.path.join(LEAN, "GN", "Props", "Pins", prop + ".lean")
    if not os.path.exists(f):
        return None, []
    try:
        gen = open(os.path.join(LEAN, "GN", "Generated", "SourcePins.lean")).read()
    except OSError:
        gen = ""
    cur = {m.group(1): int(m.group(2), 16) for m in re.finditer(r"^def (\w+) : Nat := (0x[0-9a-f]+)", gen, re.M)}
    changed = []
    for m in re.finditer(r'\("(\w+)", \w+, (0x[0-9a-f]+)\)', open(f).read()):
        name, want = m.group(1), int(m.group(2), 16)
        if name not in cur:
            changed.append(name + " (gone)")
        elif cur[name] != want:
            changed.append(name)
    return "GN.Props.Pins." + prop, changed


def audit_pins(prop):
    path = os.path.join("GN", "Audit", "Pins" + prop + ".lean")
    if not os.path.exists(os.path.join(LEAN, path)):
        return {}
    rc, log = lean_file(path)
    thms = {}
    for m in re.finditer(r"'([^']+)' depends on axioms: \[([^\]]*)\]", log, re.S):
        thms[m.group(1)] = [a.strip() for a in m.group(2).replace("\n", " ").split(",") if a.strip()]
    for m in re.finditer(r"'([^']+)' does not depend on any axioms", log):
        thms[m.group(1)] = []
    return thms


def strip_comments(src):
    # remove /- ... -/ (nested) and -- comments, and string literals
    out = []
    i, depth, n = 0, 0, len(src)
    while i < n:
        if src.startswith("/-", i):
            depth += 1
            i += 2
        elif depth and src.startswith("-/", i):
            depth -= 1
            i += 2
        elif depth:
            if src[i] == "\n":
                out.append("\n")
            i += 1
        elif src.startswith("--", i):
            while i < n and src[i] != "\n":
                i += 1
        elif src[i] == '"':
            i += 1
            while i < n and src[i] != '"':
                i += 2 if src[i] == "\\" else 1
            i += 1
            out.append('""')
        else:
            out.append(src[i])
            i += 1
    return "".join(out)


def forbidden_scan():
    hits = []
    for root, _, files in os.walk(LEAN):
        if ".lake" in root:
            continue
        for f in files:
            if not f.endswith(".lean"):
                continue
            p = os.path.join(root, f)
            code = strip_comments(open(p, errors="replace").read())
            for ln, line in enumerate(code.split("\n"), 1):
                if FORBIDDEN.search(line):
                    hits.append("%s:%d: %s" % (os.path.relpath(p, VERIF), ln, line.strip()[:120]))
    return hits


def load_known():
    out = []
    p = os.path.join(VERIF, "known_findings.jsonl")
    if os.path.exists(p):
        for line in open(p):
            line = line.strip()
            if line and not line.startswith("#"):
                try:
                    out.append(json.loads(line))
                except Exception:
                    pass
    return out


def match_known(known, prop, text):
    """return the open known finding whose signature regex matches this violation text, if any"""
    for k in known:
        if k.get("status") == "open" and prop in k.get("properties", [k.get("property")]):
            sig = k.get("signature")
            if sig and re.search(sig, text):
                return k
    return None


def write_evidence(prop, tier, seed, level, coverage, assumptions, wall, violations):
    os.makedirs(EVIDENCE, exist_ok=True)
    ev = {"property_id": prop, "tier": tier, "seed": seed, "level": level, "coverage": coverage,
          "assumptions": assumptions, "wall_s": round(wall, 2), "violations": violations}
    tmp = os.path.join(EVIDENCE, prop + ".json.tmp")
    json.dump(ev, open(tmp, "w"), indent=1, sort_keys=False)
    os.replace(tmp, os.path.join(EVIDENCE, prop + ".json"))


def write_replay(prop, seed, idx, body):
    os.makedirs(REPLAYS, exist_ok=True)
    p = os.path.join(REPLAYS, "%s-seed%d-%d.txt" % (prop, seed, idx))
    open(p, "w").write(body)
    return p


def drive(lines_path, verdict_path, timeout=3600):
    with open(lines_path) as fin, open(verdict_path, "w") as fout:
        try:
            p = subprocess.run([DRIVER], stdin=fin, stdout=fout, stderr=subprocess.PIPE, text=True, timeout=timeout)
        except subprocess.TimeoutExpired:
            # the cases judged so far stay; the rest of the shard is reported as not judged (a broken tie, not a crash)
            return 124, "the Lean driver did not finish judging this shard within %ds" % timeout
    return p.returncode, p.stderr
