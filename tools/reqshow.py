#!/usr/bin/env python3
"""decode REQ lines/verdicts (hex -> text) for reading"""
import sys,re,binascii
def dec(t):
    if t=='-': return "''"
    if re.fullmatch(r'[0-9a-f]+',t) and len(t)%2==0 and len(t)>=2:
        try:
            s=binascii.unhexlify(t).decode()
            if all(32<=ord(c)<127 for c in s): return s
        except Exception: pass
    if t.startswith('thrown:'): return 'thrown:'+dec(t[7:])
    return t
for line in sys.stdin:
    print(' '.join(dec(t) for t in line.split()))
