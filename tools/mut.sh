#!/bin/bash
# usage: mut.sh <file under /repo> <old text> <new text> <prop>...   — apply a textual mutation, run checks, revert
file="$1"; old="$2"; new="$3"; shift 3
trap 'git -C /repo checkout -- .' EXIT
python3 - "$file" "$old" "$new" <<'PY' || exit 2
import sys
p='/repo/'+sys.argv[1]
s=open(p).read()
assert s.count(sys.argv[2])>=1, "pattern not found"
open(p,'w').write(s.replace(sys.argv[2],sys.argv[3],1))
PY
(cd /repo && GOFLAGS=-mod=mod go build ./... ) || { echo "mutant does not build"; exit 2; }
# evidence/ must keep describing the unchanged tree: runs against a changed tree do not overwrite it
rm -rf /verif/work/evidence.bak && cp -r /verif/evidence /verif/work/evidence.bak
for p in "$@"; do
  out=$(cd /verif && ./check $p 2>&1)
  echo "$p: $(echo "$out" | grep -c '^VIOLATION') violation line(s); $(echo "$out" | tail -1 | cut -c1-230)"
done
rm -rf /verif/evidence && mv /verif/work/evidence.bak /verif/evidence
