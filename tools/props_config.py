"""Per-property configuration of the checks (what to build, what to run, what the evidence says)."""

COMMON_TRUSTED = [
    "Lean 4.33.0 kernel (thorough tier: re-checked by leanchecker); axioms allowed: propext, Classical.choice, Quot.sound (audited per theorem on every run)",
    "verif-extract (go/ast translator, /verif/harness/cmd/verif-extract): that it prints the Go literals / int64 expressions it claims to",
    "the correspondence harness and its canonicalisation; agreement of model and code is observed on the cases run, not proved",
]

PROPS = {
    "C10": {
        "runner": "diff",
        "harness": "corr-buffer",
        "harness_args": ["-prop", "C10"],
        "n": {"quick": 40000, "thorough": 3000000, "search": 400000},
        "props_modules": ["GN.Props.C10"],
        "theorems": [
            "GN.Props.C10.method_table_matches_names", "GN.Props.C10.aliases_bound_to_twin",
            "GN.Props.C10.offset_guard_exact", "GN.Props.C10.var_guard_exact",
            "GN.Props.C10.range_checks_exact", "GN.Props.C10.stored_bytes_are_twos_complement",
            "GN.Props.C10.store_places_exactly", "GN.Props.C10.sign_extension_exact",
            "GN.Props.C10.read_back_what_was_written", "GN.Props.C10.failure_leaves_buffer_unchanged",
            "GN.Props.C10.model_refines_spec", "GN.Props.C10.every_specified_name_is_registered",
        ],
        "rule": "cases = (method from the registered prototype names, buffer of 0-24 random/sign-pattern bytes, value/offset/byteLength from boundary pools: every power-of-two boundary of every width +-1, offsets around 0/len/2^31/2^53/2^63, NaN/Inf/fractions/wrong types/missing); one PRNG seeded by VERIF_SEED. distinct_nontrivial = distinct case lines that lie inside the property's claimed domain (integral values and offsets; the specification has a verdict) and on which implementation, model and specification agreed",
        "trusted_base": COMMON_TRUSTED + [
            "goja's Value.ToInteger / IsNumber / BigInt export (modelled: F64.toIntegerClip) and Go's float32 conversion (modelled on bit patterns: narrow32/widen32) — exercised by the correspondence, not proved",
        ],
        "assumptions": [
            "fractional / NaN numbers as integer values or offsets are outside the claim (driver verdict OK-NOCLAIM); model and code are still compared there",
            "float32 writes above MaxFloat32 are outside the claim",
        ],
    },
    "C19": {
        "runner": "diff",
        "harness": "corr-misc",
        "harness_args": ["-prop", "C19"],
        "n": {"quick": 20000, "thorough": 1500000, "search": 200000},
        "props_modules": ["GN.Props.C19"],
        "theorems": ["GN.Props.C19." + t for t in [
            "format_eq_spec", "no_args_identity", "trailing_percent_kept", "surplus_appended", "directive_takes_next",
            "pctpct_and_unknown", "missing_arg_kept", "console_sinks_match", "console_methods_exactly", "console_eq_spec"]],
        "rule": "cases = util.format calls with format strings over an alphabet rich in '%' (every position incl. last), directive and non-directive letters, multi-byte and astral characters, 0-5 arguments from a pool of strings/numbers/booleans/null/undefined/arrays/objects; every 4th case is a sequence of 1-5 console.log/info/debug/warn/error calls through a recording Printer. The three renderings of each argument are computed by calling goja directly. distinct_nontrivial = distinct case lines on which implementation, model and specification agreed",
        "signature": lambda c, v: " ".join(c.split(" ")[1:3]),
        "trusted_base": COMMON_TRUSTED + [
            "goja's String(x), Number(x) and JSON.stringify(x) are parameters of the model (supplied per case by the harness); every theorem holds for all values of them",
        ],
        "assumptions": ["Symbols, BigInts and objects with custom inspection are outside the claim and not generated",
                        "'%%' becomes '%' while an unused argument remains (the reading under which 'a directive that has no argument left stays as it is' also covers '%%')"],
    },
    "C20": {
        "runner": "diff",
        "harness": "corr-misc",
        "harness_args": ["-prop", "C20"],
        "n": {"quick": 400, "thorough": 20000, "search": 3000},
        "props_modules": ["GN.Props.C20"],
        "theorems": ["GN.Props.C20." + t for t in [
            "split_first_eq", "split_none_iff", "snapshot_exact", "snapshot_distinct", "snapshot_entry",
            "step_isolated", "run_host_unchanged", "run_isolated"]],
        "rule": "cases = a generated environment (0-40 entries; names/values over a wide alphabet, empty values, several '=', non-ASCII, entries without '=') realised by running the probe in a child process started with exactly that environment, 1-3 runtimes sharing one Registry, 0-6 JS writes/deletes; observable: sorted Object.entries(process.env) of every runtime and os.Environ() afterwards. distinct_nontrivial = distinct case lines on which implementation, model and specification agreed",
        "signature": lambda c, v: "env",
        "trusted_base": COMMON_TRUSTED + ["os.Environ(), goja's wrapping of a Go map[string]string as a JS object (exercised, not proved)"],
        "assumptions": ["names in a host environment are distinct and values are well-formed UTF-8 (what the generator produces)"],
    },
    "C12": {
        "runner": "diff",
        "harness": "corr-url",
        "harness_args": ["-prop", "C12"],
        "n": {"quick": 20000, "thorough": 1500000, "search": 200000},
        "props_modules": ["GN.Props.C12"],
        "theorems": ["GN.Props.C12." + t for t in [
            "delete_eq_spec", "table_escapes_specials", "escape_shape", "unescape_escape_id", "unescape_clauses",
            "parse_clauses", "getters", "iter_live", "set_eq_spec", "sort_spec", "parse_serialize_id"]],
        "rule": "cases = a constructor form (none, query string assembled from pieces incl. '?', '&&', '+', valid/malformed %XX, ill-formed UTF-8 escapes; record; iterable of pairs; another URLSearchParams) followed by 0-15 operations (append, delete by name / name+value / name+undefined, set, sort, get, getAll, has, keys/values/entries iterators created at any time and advanced later) over a small alphabet with duplicates, empty, reserved and non-ASCII names; observed after the constructor and after every operation: Array.from(p), size, toString(), the operation's result, forEach agreement, and parse(toString()) = list on the implementation itself. The Lean driver runs the code-shaped model (index loops) and, separately, the list-level specification (filter / WHATWG set / stable merge sort). distinct_nontrivial = distinct case lines on which all three agreed",
        "signature": lambda c, v: c.split(" ")[1],
        "trusted_base": COMMON_TRUSTED + ["goja's string conversion (ill-formed UTF-8 -> U+FFFD, modelled by sanitizeUtf8) and property order of records (the harness passes Object.keys order)",
                                          "Go's sort.Stable is modelled by a stable insertion sort (the result of a stable sort is unique)"],
        "assumptions": ["sort compares names bytewise (code-point order); generated names do not mix astral characters with U+E000-U+FFFF, where UTF-16 code-unit order differs",
                        "callbacks that mutate the list during forEach are not generated"],
    },
}
