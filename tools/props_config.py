"""Per-property configuration of the checks (what to build, what to run, what the evidence says)."""

COMMON_TRUSTED = [
    "Lean 4.33.0 kernel (thorough tier: re-checked by leanchecker); axioms allowed: propext, Classical.choice, Quot.sound (audited per theorem on every run)",
    "verif-extract (go/ast translator, /verif/harness/cmd/verif-extract): that it prints the Go literals / int64 expressions it claims to",
    "the correspondence harness and its canonicalisation; agreement of model and code is observed on the cases run, not proved",
]

PROPS = {
    "C10": {
        "runner": "diff",
        "harness": "corr-buffer",
        "harness_args": ["-prop", "C10"],
        "n": {"quick": 40000, "thorough": 3000000, "search": 400000},
        "props_modules": ["GN.Props.C10"],
        "theorems": [
            "GN.Props.C10.method_table_matches_names", "GN.Props.C10.aliases_bound_to_twin",
            "GN.Props.C10.offset_guard_exact", "GN.Props.C10.var_guard_exact",
            "GN.Props.C10.range_checks_exact", "GN.Props.C10.stored_bytes_are_twos_complement",
            "GN.Props.C10.store_places_exactly", "GN.Props.C10.sign_extension_exact",
            "GN.Props.C10.read_back_what_was_written", "GN.Props.C10.failure_leaves_buffer_unchanged",
        ],
        "rule": "cases = (method from the registered prototype names, buffer of 0-24 random/sign-pattern bytes, value/offset/byteLength from boundary pools: every power-of-two boundary of every width +-1, offsets around 0/len/2^31/2^53/2^63, NaN/Inf/fractions/wrong types/missing); one PRNG seeded by VERIF_SEED. distinct_nontrivial = distinct case lines that lie inside the property's claimed domain (integral values and offsets; the specification has a verdict) and on which implementation, model and specification agreed",
        "trusted_base": COMMON_TRUSTED + [
            "goja's Value.ToInteger / IsNumber / BigInt export (modelled: F64.toIntegerClip) and Go's float32 conversion (modelled on bit patterns: narrow32/widen32) — exercised by the correspondence, not proved",
        ],
        "assumptions": [
            "fractional / NaN numbers as integer values or offsets are outside the claim (driver verdict OK-NOCLAIM); model and code are still compared there",
            "float32 writes above MaxFloat32 are outside the claim",
        ],
    },
}
