#!/bin/bash
# (manual) after a reviewed change to /repo (a fix: commit): re-read the transcription pins and the C09 inventory.
# Never run by the checks.  Afterwards run every check once: ./check Cxx
cd "$(dirname "$0")/.." && python3 tools/pin_sources.py | tail -3 && python3 tools/pin_c09.py
