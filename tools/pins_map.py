"""Which Go declarations each property's hand-written model was transcribed from (regular expressions over the keys of
lean/GN/Generated/SourcePins.lean: <package>_<Receiver>_<Name>, <package>_var_<Name>, <package>_type_<Name>, ...).

A declaration is listed under a property when the property's model, specification clauses or harness protocol depend on
how that declaration behaves; shared plumbing (error constructors, module registration, reflect types) is listed only
where a property speaks about it.  `tools/pin_sources.py` turns this map and the current tree into
lean/GN/Props/Pins/Cxx.lean (one theorem per property) after a review of what changed."""

EL_QUEUE = r"eventloop_EventLoop_(RunOnLoop|runAux|addAuxJob|wakeup|run|setRunning|Run|Start|StartInForeground)"
EL_STOP = r"eventloop_EventLoop_(Stop|StopNoWait|setRunning|run|Start|StartInForeground|Run)"
EL_JOBS = (r"eventloop_(EventLoop_(schedule|setTimeout|setInterval|setImmediate|SetTimeout|ClearTimeout|SetInterval|ClearInterval|"
           r"newTimeout|newInterval|addImmediate|doTimeout|doInterval|doImmediate|clearTimeout|clearInterval|clearImmediate|"
           r"jsClearTimeout|jsClearInterval|jsClearImmediate|removeJob)|Timer_start|Interval_start|Interval_doCancel|Timer_doCancel|"
           r"Interval_run|type_job|type_Timer|type_Interval|type_Immediate)")
EL_TYPES = r"eventloop_(type_EventLoop|NewEventLoop)"

PINS = {
    "C01": [r"require_RequireModule_(resolve|loadNative|loadAsFileOrDirectory|loadAsFile|loadIndex|loadAsDirectory|loadNodeModule|"
            r"loadNodeModules|loadModule|forget|loadModuleFile|createModuleObject|require|Require|getCurrentModulePath)",
            r"require_type_(RequireModule|nodeModuleKey)", r"require_Require"],
    "C02": [r"require_RequireModule_(resolve|resolvePath|loadAsFileOrDirectory|loadAsFile|loadIndex|loadAsDirectory|loadNodeModule|"
            r"loadNodeModules|getCurrentModulePath)", r"require_(isFileOrDirectoryPath|filepathClean|DefaultPathResolver|DefaultSourceLoader)"],
    "C03": [EL_QUEUE, EL_STOP, r"eventloop_EventLoop_Terminate", EL_TYPES],
    "C04": [EL_QUEUE, r"eventloop_EventLoop_Terminate", EL_TYPES],
    "C05": [EL_JOBS, r"eventloop_msToDuration", r"eventloop_EventLoop_(run|Terminate)", EL_TYPES],
    "C06": [EL_JOBS, r"eventloop_EventLoop_(run|Run|Start|StartInForeground|Terminate|Stop|addAuxJob)", EL_TYPES],
    "C07": [EL_STOP, r"eventloop_EventLoop_(addAuxJob|wakeup|runAux)", EL_TYPES],
    "C08": [r"eventloop_EventLoop_(Terminate|Stop|run|runAux|addAuxJob|removeJob|setRunning)",
            r"eventloop_(Interval_run|Interval_doCancel|Timer_doCancel|Timer_start|Interval_start|type_job|type_Timer|type_Interval)",
            r"eventloop_EventLoop_(doTimeout|doInterval|clearTimeout|clearInterval)", EL_TYPES],
    # C09: the regenerated inventory of panic sites already covers every index/slice/conversion of the library
    "C10": [r"buffer_Buffer_(read|write)(Big)?(U)?(Int|Float|Double).*", r"buffer_Buffer_(getOffsetArgument|getVariableLength.*|ensureWithin.*)",
            r"buffer_signExtend", r"buffer_Bytes", r"goutil_.*", r"buffer_Require"],
    "C11": [r"buffer_(hexCodec|_utf8Codec|base64Codec|base64UrlCodec)_.*", r"buffer_var_(utf8Codec|stringCodecs)",
            r"buffer_(expandSlice|Base64DecodeAppend|StringCodecByName|DecodeBytes|EncodeBytes|WrapBytes|Bytes|isBinary)",
            r"buffer_Buffer_(fromString|fromBytes|_from|fromDepth|from|getStringCodec|fill|alloc|proto_toString|proto_equals|write|ctor|WrapBytes)",
            r"buffer_const_(maxLength|maxFromDepth)"],
    "C12": [r"url_(var_tblEscapeURLQueryParam|const_upperhex|ishex|unhex|escape|unescapeSearchParam|escapeSearchParam|parseSearchQuery)",
            r"url_(searchParam|searchParams|urlSearchParams)_.*", r"url_type_(searchParam|searchParams|urlSearchParams|urlSearchParamsIterator|urlSearchParamsIteratorType)",
            r"url_urlModule_(createURLSearchParamsConstructor|buildParamsFromObject|forOf|buildParamsFromIterable|createURLSearchParamsPrototype|"
            r"getURLSearchParamsIteratorPrototype|newURLSearchParamsIterator|newURLSearchParams)", r"url_const_urlSearchParamsIterator.*",
            r"url_(toUrlSearchParams|toURLSearchParamsIterator|utf16Less|utf16Units)"],
    "C13": [r"url_urlModule_(createURLPrototype|createURLConstructor|parseURL|normalizeURL|fixURL|defineURLAccessorProp)",
            r"url_(valueToURLPort|isDefaultURLPort|isSpecialProtocol|isSpecialNetProtocol|hostWithoutPort|validHostColons|clearURLPort|setURLPort|"
            r"fixRawQuery|cleanPath|validHost|dropDefaultPort|toURL)", r"url_nodeURL_.*", r"url_type_nodeURL", r"url_urlSearchParams_markUpdated",
            r"url_(parseSearchQuery|searchParams_Encode|searchParams_String|searchParam_string|searchParam_Encode|escapeSearchParam)",
            r"url_var_tblEscapeURLQuery"],
    "C14": [r"url_urlModule_(createURLConstructor|parseURL|normalizeURL|fixURL)",
            r"url_(isDefaultURLPort|isSpecialProtocol|isSpecialNetProtocol|hostWithoutPort|validHostColons|fixRawQuery|cleanPath|validHost|dropDefaultPort)",
            r"url_nodeURL_String", r"url_var_tblEscapeURLQuery"],
    "C15": [r"require_RequireModule_(resolve|loadNative|require|Require)", r"require_(RegisterNativeModule|RegisterCoreModule|Registry_RegisterNativeModule|"
            r"const_NodePrefix|var_native|Require)"],
    "C16": [r"require_RequireModule_(loadModuleFile|loadModule|loadAsFile)", r"require_Registry_(getCompiledSource|getSource)"],
    # C17: the regenerated access tables (which field is touched where, under which lock) are its tie
    "C18": [r"eventloop_EventLoop_(runAux|run|addAuxJob|schedule|setTimeout|setInterval|setImmediate|addImmediate|doTimeout|doInterval|doImmediate|"
            r"clearTimeout|clearInterval|clearImmediate)"],
    "C19": [r"util_Util_(format|Format|js_format)", r"util_(New|Require)", r"console_(Console_log|requireWithPrinter|RequireWithPrinter|Require|type_Printer)",
            r"console_StdPrinter_.*"],
    "C20": [r"process_(Require|Enable|type_Process)"],
}
