#!/usr/bin/env python3
"""Writes /verif/MANIFEST.json from tools/manifest_data.py (kept in one place so it stays valid)."""
import json, os, sys
sys.path.insert(0, os.path.dirname(os.path.abspath(__file__)))
from manifest_data import CHECKS, NOT_APPLICABLE, HOOK_COMMITS

VERIF = os.path.dirname(os.path.dirname(os.path.abspath(__file__)))
props = [json.loads(l)["id"] for l in open(os.path.join(VERIF, "properties.jsonl")) if l.strip()]
claimed = {c["property_id"] for c in CHECKS}
na = [n for n in NOT_APPLICABLE if n["property_id"] not in claimed]
missing = [p for p in props if p not in claimed and p not in {n["property_id"] for n in na}]
for p in missing:
    na.append({"property_id": p, "reason": "not yet covered by a registered check in this revision (work in progress; see DESIGN.md section 9)"})
checks = []
for c in CHECKS:
    pid = c["property_id"]
    checks.append({
        "property_id": pid,
        "quick_cmd": "./check %s --tier quick" % pid,
        "thorough_cmd": "./check %s --tier thorough" % pid,
        "evidence_file": "/verif/evidence/%s.json" % pid,
        "replay_cmd_template": "./check %s --replay {path}" % pid,
        "engine": c.get("engine", "lean4-proof+correspondence"),
        "level_claimed": {"category": c.get("category", "proof"), "text": c["text"], "design_ref": c.get("design_ref", "DESIGN.md section 6, " + pid)},
        "level_note": c["note"],
        "technique": c["technique"] + (" + transcription pins (digests of the Go declarations the hand-written model was transcribed from, regenerated on every run; theorem GN.Props.Pins.%s.sources_as_transcribed)" % pid
                                        if os.path.exists(os.path.join(VERIF, "lean", "GN", "Props", "Pins", pid + ".lean")) else ""),
    })
m = {
    "version": 1,
    "setup_cmd": "./check --setup",
    "hooks": {
        "guard": "verif",
        "enable": "go build/test -tags verif (the harness is built with -tags verif against /repo's working tree; eventloop/verif_on.go defines the yield-point hook, verif_off.go the no-op)",
        "baseline_off_cmd": "cd /repo && GOFLAGS=-mod=mod go test -vet=off -count=1 ./...",
        "source_commits": HOOK_COMMITS,
        "add_only": True,
    },
    "engines": [
        {"name": "lean4-proof+correspondence", "path": "/verif/lean, /verif/harness, /verif/check",
         "serves_properties": sorted(claimed),
         "kind_free_text": "Lean 4 theorems about an executable model; model tied to /repo by (a) definitions regenerated from the Go source by verif-extract on every run and (b) differential execution of model and real code through a line protocol and (c) transcription pins: a digest per Go declaration, regenerated on every run, compared by theorem with the digest the hand-written model was last read against"},
    ],
    "checks": checks,
    "not_applicable": na,
    "notes": "Every check rebuilds the Go harness from /repo's working tree and re-extracts the generated Lean definitions on every run. VERIF_SEED seeds every random choice; VERIF_TIER overrides --tier. known_findings.jsonl lists repaired (fixed:) and open findings.",
}
json.dump(m, open(os.path.join(VERIF, "MANIFEST.json"), "w"), indent=1)
print("MANIFEST.json: %d checks, %d not_applicable" % (len(checks), len(na)))
