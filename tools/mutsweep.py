#!/usr/bin/env python3
"""(experiment, manual) mutation sweep: how much do the correspondence checks catch *without* the transcription pins?

For every single-token mutation (relational operator swapped, && <-> ||, small constant changed, true <-> false) of the
chosen files: build; run the package's own tests (a mutant the suite kills is of no interest); run the checks mapped to
the file against the mutated worktree with VERIF_NOPINS=1 (tools/seed_iso.sh).  Survivors are listed for reading: each is
either an equivalent mutant or a gap of a generator.   usage: mutsweep.py <out dir> <workers> [file ...]"""
import os, re, subprocess, sys, json, concurrent.futures, shutil
FILES = {
    "url/escape.go": ["C12"], "url/nodeurl.go": ["C12", "C13"], "url/urlsearchparams.go": ["C12"], "url/url.go": ["C13", "C14"],
    "util/module.go": ["C19"], "console/module.go": ["C19"], "process/module.go": ["C20"],
    "buffer/buffer.go": ["C10", "C11"], "goutil/argtypes.go": ["C10"],
    "require/resolve.go": ["C01", "C02", "C15"], "require/module.go": ["C01", "C16"],
    "eventloop/eventloop.go": ["C06", "C04"],
}
SWAPS = [(r" <= ", " < "), (r" < ", " <= "), (r" >= ", " > "), (r" > ", " >= "), (r" == ", " != "), (r" != ", " == "),
         (r" && ", " || "), (r" \|\| ", " && "), (r"\btrue\b", "false"), (r"\bfalse\b", "true"),
         (r"\+ 1\b", "+ 2"), (r"- 1\b", "- 2"), (r"\+ 2\b", "+ 1"), (r"\b0\b", "1"), (r"\b1\b", "0")]
ENV = dict(os.environ, GOFLAGS="-mod=mod", GOPROXY="off", GOSUMDB="off", GOTOOLCHAIN="local")

def mutants(rel):
    src = open("/repo/" + rel).read().split("\n")
    out = []
    infunc = False
    for ln, line in enumerate(src):
        st = line.strip()
        if st.startswith("//") or st.startswith("import") or '"' in st and st.startswith('"'):
            continue
        if "verifPoint" in line or st.startswith("func ") or st.startswith("case '") and False:
            continue
        code = line.split("//")[0]
        for rx, rep in SWAPS:
            for m in re.finditer(rx, code):
                # skip string literals crudely
                if code[:m.start()].count('"') % 2 == 1 or code[:m.start()].count("'") % 2 == 1:
                    continue
                new = code[:m.start()] + re.sub(rx, rep, code[m.start():m.end()]) + line[m.end():]
                out.append((rel, ln, line, new))
    return out

def run_one(args):
    idx, (rel, ln, old, new), outdir = args
    wid = POOL.get()          # one worktree per running task (tasks must never share one)
    try:
        return run_in(wid, idx, rel, ln, old, new)
    finally:
        POOL.put(wid)


def run_in(wid, idx, rel, ln, old, new):
    wt = "/tmp/mutsweep-wt-%d" % wid
    tag = "%s:%d" % (rel, ln + 1)
    res = {"id": idx, "where": tag, "old": old.strip(), "new": new.strip()}
    try:
        subprocess.run(["git", "-C", wt, "checkout", "-q", "--", "."], check=True)
        p = wt + "/" + rel
        lines = open(p).read().split("\n")
        if lines[ln] != old:
            res["status"] = "skip"; return res
        lines[ln] = new
        open(p, "w").write("\n".join(lines))
        b = subprocess.run("go build ./... && go build -tags verif ./...", shell=True, cwd=wt, env=ENV, capture_output=True, text=True)
        if b.returncode != 0:
            res["status"] = "nobuild"; return res
        pkg = os.path.dirname(rel)
        t = subprocess.run(["go", "test", "-vet=off", "-count=1", "-timeout", "120s", "./" + pkg + "/"], cwd=wt, env=ENV, capture_output=True, text=True)
        if t.returncode != 0:
            res["status"] = "killed-by-suite"; return res
        det = []
        for prop in FILES[rel]:
            r = subprocess.run(["/verif/tools/seed_iso.sh", wt, prop], env=dict(ENV, VERIF_NOPINS="1"), capture_output=True, text=True, timeout=3000)
            line = [l for l in r.stdout.split("\n") if l.startswith(prop + ":")]
            det.append(line[0][:260] if line else "?")
            if line and " 0 VIOLATION" not in line[0]:
                res["status"] = "detected"; res["by"] = det; return res
        res["status"] = "SURVIVED"; res["by"] = det
        return res
    except Exception as e:
        res["status"] = "error " + str(e)[:200]
        return res
    finally:
        subprocess.run(["git", "-C", wt, "checkout", "-q", "--", "."])

if __name__ == "__main__":
    outdir = sys.argv[1]; WORKERS = int(sys.argv[2]); files = sys.argv[3:] or list(FILES)
    import queue
    POOL = queue.Queue()
    for w in range(WORKERS):
        POOL.put(w)
    os.makedirs(outdir, exist_ok=True)
    for w in range(WORKERS):
        wt = "/tmp/mutsweep-wt-%d" % w
        if not os.path.exists(wt):
            subprocess.run(["git", "-C", "/repo", "worktree", "add", "-q", "--detach", wt, "HEAD"], check=True)
    ms = []
    for f in files:
        ms += mutants(f)
    # spread: every k-th mutant when there are many
    LIMIT = int(os.environ.get("MUT_LIMIT", "400"))
    if len(ms) > LIMIT and not os.environ.get("MUT_ONLY"):
        step = len(ms) / float(LIMIT)
        ms = [ms[int(i * step)] for i in range(LIMIT)]
    only = os.environ.get("MUT_ONLY")
    if only:
        want = {tuple(l.rstrip("\n").split("\t")) for l in open(only)}
        ms = [m for m in ms if ("%s:%d" % (m[0], m[1] + 1), m[3].strip()) in want]
    print("mutants:", len(ms), flush=True)
    with open(outdir + "/results.jsonl", "a") as out, concurrent.futures.ThreadPoolExecutor(max_workers=WORKERS) as ex:
        for r in ex.map(run_one, [(i, m, outdir) for i, m in enumerate(ms)]):
            out.write(json.dumps(r) + "\n"); out.flush()
            if r["status"] in ("SURVIVED",) or r["status"].startswith("error"):
                print(r["status"], r["where"], "|", r["old"], "=>", r["new"], flush=True)
    for w in range(WORKERS):
        subprocess.run(["git", "-C", "/repo", "worktree", "remove", "--force", "/tmp/mutsweep-wt-%d" % w])
    print("done", flush=True)
