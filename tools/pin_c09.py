#!/usr/bin/env python3
"""Writes lean/GN/Props/C09Sites.lean: the reviewed inventory of potential run-time panic sites (a copy of what
verif-extract finds in the tree at review time) together with, per function, the argument that covers its sites.
Run by hand after a review; never by the checks (the checks only compare the regenerated inventory with this file)."""
import re, sys, os
LEAN = os.path.join(os.path.dirname(os.path.abspath(__file__)), "..", "lean")
src = open(os.path.join(LEAN, "GN/Generated/PanicSites.lean")).read()
ents = re.findall(r'\("([^"]+)", "([^"]+)", (\d+)\)', src)

RULES = [
  (r"buffer/buffer.go:Buffer\.(read|write)(BigU?Int64|Double|Float|U?[Ii]nt(8|16|32))", "guard:getOffsetArgument — fixed_width_access_in_bounds (guard regenerated from the source)"),
  (r"buffer/buffer.go:Buffer\.(read|write)U?[Ii]nt(BE|LE)$", "guard:getVariableLengthArguments — var_width_access_in_bounds (guard regenerated from the source)"),
  (r"buffer/buffer.go:Buffer\.proto_toString", "C11.toString_range_in_bounds: the encoded sub-range lies inside the buffer"),
  (r"buffer/buffer.go:Buffer\.write$", "C11.write_is_prefix_of_decode: n <= len - offset, n <= |decoded|; offset checked by getOffsetArgument-style guard (write_offset_in_bounds)"),
  (r"buffer/buffer.go:Buffer\.fill", "C11.fill_repeats_pattern: result has exactly the buffer's size; copies are bounded by len(buf)"),
  (r"buffer/buffer.go:Buffer\.alloc", "alloc_size_in_range: size is checked against 0..maxLength before make; call.Arguments index guarded by len check"),
  (r"buffer/buffer.go:Buffer\.fromDepth", "from_length_in_range: array-like length clamped to 0..maxLength before make; recursion bounded by maxFromDepth; args[0] exists (len(args)==0 rejected first)"),
  (r"buffer/buffer.go:Buffer\.fromString|buffer/buffer.go:Buffer\.getStringCodec|buffer/buffer.go:StringCodecByName", "map lookup (stringCodecs): a missing key yields the zero value, no panic"),
  (r"buffer/buffer.go:DecodeBytes", "type assertions on values of a type switch arm; map lookup"),
  (r"buffer/buffer.go:Require|util/module.go:Require|process/module.go:Require|console/module.go:requireWithPrinter", "module initialisation: asserts on values the module has just created itself; runs once per runtime, no script input"),
  (r"buffer/buffer.go:expandSlice|buffer/buffer.go:hexCodec\.DecodeAppend|buffer/buffer.go:Base64DecodeAppend", "slices up to a length computed from len() of the same slice (C11 codec model exact on every input, tied by correspondence)"),
  (r"errors/errors.go:NewError", "variadic args: index guarded by len(args) > 0"),
  (r"eventloop/eventloop.go:EventLoop\.(Terminate|removeJob|runAux)", "range-loop indices over the slice being indexed (C06 ledger model: registry_matches_goroutines)"),
  (r"eventloop/eventloop.go:EventLoop\.(schedule|setImmediate)", "call.Arguments[1:]/[2:] behind a len(call.Arguments) check"),
  (r"eventloop/eventloop.go:Interval\.doCancel", "close(stopChan) at most once: guarded by the cancelled flag (C06.clear_needs_a_live_job, C05.clear_is_idempotent); only *Interval values reach it (handle type check)"),
  (r"eventloop/eventloop.go:msToDuration", "division by the constant time.Millisecond (msToDuration regenerated; C05.delay_conversion_never_shortens)"),
  (r"require/module.go:|require/resolve.go:RequireModule\.(loadModule|loadNative|resolve)", "map lookups / stores on maps allocated in the constructors; strings sliced after a HasPrefix test (C15 model exact, tied by correspondence)"),
  (r"require/resolve.go:RequireModule\.getCurrentModulePath", "frames slice indexed after a length test"),
  (r"url/escape.go:", "loop index i < len(s); table index guarded by c > 127 test; hex digits read only after i+2 < len(s) (C12 model exact on every byte string)"),
  (r"url/nodeurl.go:utf16Less", "a[na:], b[nb:]: na, nb are the widths utf8.DecodeRuneInString returned for the non-empty a, b (1 <= n <= len)"),
  (r"url/nodeurl.go:", "indices from range loops / sort.Interface within Len(); SplitN result indexed by its length"),
  (r"url/url.go:toURL|url/urlsearchparams.go:to(URLSearchParamsIterator|UrlSearchParams)", "receiver check: ExportType compared first, then the assertion on that very type"),
  (r"url/url.go:urlModule\.createURLConstructor|url/urlsearchparams.go:urlModule\.(createURLSearchParamsConstructor|newURLSearchParams|newURLSearchParamsIterator)", "ToValue(...) of a Go function / pointer is always a *goja.Object"),
  (r"url/url.go:urlModule\.createURLPrototype", "h[0], h[1:], s[:pos] behind len(h) > 0 / pos >= 0 tests (C13 model exact, tied by correspondence)"),
  (r"url/url.go:valueToURLPort", "s[i] with i < len(s) loop bound (port_value_in_range)"),
  (r"url/urlsearchparams.go:urlModule\.(createURLSearchParamsPrototype|getURLSearchParamsIteratorPrototype)", "compaction loops: j <= i < len (C12.delete_eq_spec / set_eq_spec); iterator index checked against len on every next()"),
  (r"util/module.go:Util\.(Format|js_format)", "args indexed behind argNum < len(args) (C19.format_eq_spec); call.Arguments[1:] behind a length check"),
]
def tag(fn):
    for rx, t in RULES:
        if re.search(rx, fn):
            return t
    return None
missing = sorted({fn for fn, _, _ in ents if tag(fn) is None})
if missing:
    print("no coverage argument for:", *missing, sep="\n  ")
    sys.exit(1)
fns = sorted({fn for fn, _, _ in ents})
out = ["/- The reviewed inventory of potential run-time panic sites (written by tools/pin_c09.py after a review; the",
       "   checks never rewrite it).  `Generated.panicSites` is recomputed from the source on every run. -/",
       "namespace GN.Props.C09", "",
       "def expectedPanicSites : List (String × String × Nat) := ["]
out += ["  (%s, %s, %s)%s" % ('"%s"' % a, '"%s"' % b, c, "," if i < len(ents) - 1 else "") for i, (a, b, c) in enumerate(ents)]
out += ["]", "", "/-- per function: why none of its sites can panic -/", "def coverage : List (String × String) := ["]
out += ["  (%s, %s)%s" % ('"%s"' % fn, '"%s"' % tag(fn).replace('"', "'"), "," if i < len(fns) - 1 else "") for i, fn in enumerate(fns)]
out += ["]", "", "end GN.Props.C09", ""]
open(os.path.join(LEAN, "GN/Props/C09Sites.lean"), "w").write("\n".join(out))
print("pinned", len(ents), "entries,", len(fns), "functions")
