#!/bin/bash
# usage: seed_confirm.sh <worktree> <seed dir (patch.diff + *_test.go)> <props...>
# 1. in the scratch worktree: builds (plain, -tags verif), suite passes with the patch, demo fails with it and passes without it
# 2. runs the given checks against the patched worktree from a private copy of /verif (tools/seed_iso.sh); /repo is not touched
export GOFLAGS=-mod=mod GOPROXY=off GOSUMDB=off GOTOOLCHAIN=local
wt="$(realpath "$1")"; sd="$(realpath "$2")"; shift 2
cd "$wt" && git checkout -q -- . && git clean -fdq
demo=$(ls "$sd"/*_test.go | head -1)
pkg=$(grep -m1 '^package ' "$demo" | awk '{print $2}' | sed 's/_test$//')
case "$pkg" in url|buffer|eventloop|require|util|console|process|goutil|errors) ;; *) pkg=$(grep -l . "$sd"/notes.md >/dev/null; echo "$pkg");; esac
fn=$(grep -o 'func Test[A-Za-z0-9_]*' "$demo" | head -1 | awk '{print $2}')
echo "--- demo $fn in package $pkg"
cp "$demo" "$wt/$pkg/"
r0=$(cd "$wt" && timeout 600 go test -vet=off -count=1 -run "^$fn\$" -timeout 300s ./$pkg/ 2>&1 | tail -1)
echo "without the change: $r0"
rm -f "$wt/$pkg/$(basename $demo)"
git apply "$sd/patch.diff" || { echo "patch does not apply"; exit 1; }
b=$( (go build ./... && go build -tags verif ./...) 2>&1 | tail -3)
echo "builds: ${b:-ok}"
s=$(timeout 900 go test -vet=off -count=1 ./... 2>&1 | grep -v "no test files" | grep -v '^ok' | tail -5)
echo "suite with the change: ${s:-all ok}"
cp "$demo" "$wt/$pkg/"
r1=$(timeout 600 go test -vet=off -count=1 -run "^$fn\$" -timeout 300s ./$pkg/ 2>&1 | tail -1)
echo "with the change: $r1"
rm -f "$wt/$pkg/$(basename $demo)"
echo "--- checks against the patched worktree"
/verif/tools/seed_iso.sh "$wt" "$@"
cd "$wt" && git checkout -q -- . && git clean -fdq
