HOOK_COMMITS = ["582e9e3"]

NOT_APPLICABLE = []

CHECKS = [
    {
        "property_id": "C10",
        "technique": "Lean 4 proof (kernel lemmas over BitVec 64 about definitions regenerated from buffer.go; encode/decode round trip by induction) + differential correspondence of model/spec/implementation",
        "text": "Theorems, for all int64 values/offsets/widths with no bound: the offset guards admit exactly the in-range offsets (no wrap-around), the range checks are exactly representability, the stored bytes are the two's-complement digits in the stated order placed by a splice that leaves every other byte unchanged, sign extension is two's-complement decoding, read(write(v)) = v; the registered method table (all Uint/UInt aliases) matches the names. The guards, range checks, sign extension and the per-method facts are re-extracted from buffer.go on every run, so the theorems are re-proved against the current source; the end-to-end call semantics (argument coercion order, error classes, float narrowing) is tied by running model, specification and real code on the same generated calls.",
        "note": "Trusted: Lean kernel; verif-extract; the harness; goja's ToInteger/IsNumber and Go's float32 conversion are modelled (bit-level) and only exercised, not proved. The end-to-end theorem model_refines_spec composes the building blocks for every method name, buffer and argument tuple of the claimed domain.",
    },
    {
        "property_id": "C11",
        "technique": "Lean 4 proof (round trips by induction with per-byte facts decided over all 256 bytes in the kernel; UTF-8/UTF-16 arithmetic by omega) + differential correspondence of the codec model and the implementation",
        "text": "Theorems, for every byte sequence / string / range with no bound: hex, base64 and base64url decode(encode(b)) = b (one lenient base64 decoder accepts both alphabets, optional padding, line breaks); utf8 round trip for exactly the well-formed byte sequences (validUtf8 b <-> b is the encoding of some scalar list); UTF-16 <-> scalar values lossless; toString(enc,start,end) = encode of the clamped sub-range for all integers start/end and the sub-range is in bounds; buf.write stores a prefix of the decoded string that fits, is the encoding of a prefix of the string's characters (never part of a multi-byte sequence) and leaves other bytes unchanged; alloc fill repeats the decoded pattern, zeros when empty; from(array-like) stores elements mod 256. The model is a hand transcription of buffer.go's codec paths, tied on every run by running model and real Buffer (JS entry points and the Go helpers DecodeBytes/EncodeBytes) on the same generated inputs; agreement of all entry points is checked because each is compared with the same model function.",
        "note": "Trusted: Lean kernel; the harness; goja string conversion. Go's hex/base64/utf8 library behaviour is modelled, exercised, not verified. Sharing semantics of from(ArrayBuffer) is observed by the harness (mutation visible through both views), not modelled beyond a flag.",
    },
    {
        "property_id": "C19",
        "technique": "Lean 4 proof (refinement of the single-pass formatter to tokenise+render, by functional induction) + regenerated console sink table + differential correspondence",
        "text": "Theorem format_eq_spec: for every format string and every argument list (and every rendering of the arguments) the code's single pass with its pending-percent flag and argument cursor equals positional rendering of the tokenised string; corollaries: format(f) = f for every f (all '%', '%%', '%x' and a final '%' kept), literals preserved, %s/%d/%j take the next unused argument, surplus arguments appended after single spaces, a directive with no argument left stays. console: the sink table is re-extracted from console/module.go and proved equal to log/info/debug->Log, warn->Warn, error->Error; one message per call in call order. The model is tied to the code by running both on generated calls (util.format and console through a recording Printer).",
        "note": "Trusted: Lean kernel, verif-extract (sink table, directive letters), the harness. goja's String/Number/JSON.stringify renderings are parameters. The loop itself is a hand transcription of util/module.go tied by correspondence only.",
    },
    {
        "property_id": "C20",
        "technique": "Lean 4 proof (split-at-first-'=' law, snapshot = host value for every name by induction over the environment, isolation invariant over every operation history) + child-process differential correspondence",
        "text": "Theorems: splitting k++'='++v gives (k,v) for every value (empty, several '='); for every host environment the map a runtime sees has each name once and under every name exactly the host's value (absent iff not a variable; entries without '=' are no variables and do not crash); a write/delete in runtime i changes no other runtime's map and never the host list, for every history. Tied to the code by running the probe in a child process with a generated environment and comparing Object.entries(process.env) of 1-3 runtimes and os.Environ() afterwards with the model.",
        "note": "Trusted: Lean kernel, the harness, os.Environ and goja's Go-map wrapper. Environments are sampled, not enumerated.",
    },
    {
        "property_id": "C12",
        "technique": "Lean 4 proof (in-place compaction/set loops refined to list operations by loop invariants; percent-encoding round trip with a 256-entry table fact closed by decide over the regenerated table) + differential correspondence of code-shaped model, list-level specification and implementation",
        "text": "Theorems for every list and every byte string: delete (all three forms) leaves exactly List.filter of the WHATWG condition; unescape(escape s) = s over the escape table re-extracted from url/escape.go, which is proved to escape '%', '+', '&', '=', '?'; parser clauses ('+', valid/malformed %XX, empty pairs, one leading '?'); getters and live iterators are the list operations. set (found flag, in-place write, range-copy semantics) equals the WHATWG list-level set; sort is sorted, a permutation and stable; parse(serialize l) = l for every list of pairs of byte strings. The driver additionally compares every generated history against the list-level specification. The tie to the code: regenerated tables + running the same operation histories on the real URLSearchParams.",
        "note": "Trusted: Lean kernel, verif-extract (tables), the harness; goja string conversion and sort.Stable modelled. Histories are sampled.",
    },
    {
        "property_id": "C01",
        "technique": "Lean 4 proof about a cache-free reference semantics (identity, at-most-once, failure not cached, thrown value delivered) + executable model of the code's four caches tied to it by the cache-transparency theorem (simulation proof, all trees and histories) and by differential correspondence with the real require()",
        "text": "The property is stated as a reference semantics without request caches (GN/Require/Ideal.lean): a file has one module identity while in progress or evaluated, is registered before its body runs (cycles), a failed evaluation leaves nothing cached, the thrown value is what the requirer gets. Theorems prove these for every tree, body and state. The code (resolve/loadNative/loadModule with four caches, forget on failure) is transcribed in GN/Require/Eval.lean; on every run the real require() is executed on generated trees and histories and its event log must equal both the model's (with loader calls) and the reference semantics' (without).",
        "note": "Trusted: Lean kernel, the harness, goja call-stack/exception behaviour. Evaluation is big-step with fuel. Cache transparency (theorem code_equals_reference: the model of the code with its four caches produces exactly the reference log for all trees, registration sets and histories, fuel permitting) is proved in GN/Require/CacheLemmas.lean by a simulation; its failed first attempt exposed the 'node:'-alias shadowing defect repaired in 3120545.",
    },
    {
        "property_id": "C02",
        "technique": "Lean 4 proof: the code-shaped probing functions, over an arbitrary stateful loader, equal 'first hit in an explicit candidate list' (refinement, induction over the node_modules walk) + differential correspondence",
        "text": "Theorems for every tree, state, loader behaviour and path functions: loadAsFileOrDirectory = first candidate of [X, X.js, X.json, main, main.js, main.json, main/index.js, main/index.json | X/index.js, X/index.json]; loadNodeModules = first candidate over global folders then one node_modules per level up to the root, nearest first, never a relative file; with a loader that only probes, the first existing candidate is selected, a non-'does not exist' loader error ends the search with that error, no candidate means Invalid module. Because the theorems hold for any loader state, the selection is independent of the history as soon as the loader keys by file path only (which the fix: commit established and the correspondence checks: the loader-call log, i.e. the probe order, is compared event by event).",
        "note": "Trusted: Lean kernel, harness. Symlinks/real directories are not modelled (pure resolver). The probe order constants (.js, .json, index.*) are transcribed by hand in GN/Require/Resolve.lean and exercised by the loader-call log comparison.",
    },
    {
        "property_id": "C15",
        "technique": "Lean 4 proof about the registration-only lookup function (order, node: means core, purity, once-per-runtime) + executable model of loadNative's cache and aliases + differential correspondence across overlapping registration sets",
        "text": "Theorems: the loader a name denotes (nativeOf) depends only on the tables and the name: registry native, else global native, else core; an unregistered 'node:'-name denotes the stripped core module or fails with No such built-in module, never a native module or file; X and node:X denote the same loader when X is core and not overridden; an existing instance is returned without running the loader again. The code's loadNative (cache by requested name plus aliases) is modelled and compared with the real require() on histories mixing prefixed, unprefixed, file and ./name requests with relative script names.",
        "note": "Trusted: Lean kernel, harness; the global registration tables are fixed per harness process. Several runtimes on one Registry are exercised by C17's stress, not here.",
    },
    {
        "property_id": "C16",
        "technique": "Lean 4 proof: lexing the JSON-string encoding of any text as an ECMAScript string literal yields exactly that text and consumes exactly the encoding (per-character lemma + induction) + differential correspondence against JSON.parse and json.Marshal",
        "text": "Theorem json_literal_exact: for every text (all code points) and every continuation, the encoder's output followed by the continuation lexes as one double-quoted literal whose value is the text, leaving the continuation; so the wrapper module.exports = JSON.parse(<literal>) evaluates nothing but JSON.parse(text). The encoder model is compared with the real json.Marshal on every generated content, and the real require() result with JSON.parse of the same text in the same runtime, with sentinel globals.",
        "note": "Trusted: Lean kernel, harness, goja's lexer (assumed to follow the grammar transcribed in lexBody) and JSON.parse.",
    },
    {
        "property_id": "C03",
        "technique": "Lean 4 proof: invariants of a small-step transition system over every interleaving (induction over Reach) + trace validation of the real loop under a controlled scheduler against the executable model and, via a label mapping, against the transition system itself",
        "text": "Theorems over every reachable state of GN.EventLoop.Queue: one executor exists exactly while running is set or Terminate drains; a function is executed only by the running loop or inside Terminate; a submission to a stopped loop only queues; a second start is impossible. The detailed model additionally monitors every recorded trace: two callbacks never overlap, callbacks run only on the executing thread, none begins between Stop's return and the next start (except inside Terminate).",
        "note": "Trusted: Lean kernel; the controlled scheduler and the event-to-label mapping; Go's synchronisation primitives and timers (modelled). What is sampled is only which schedules of the real loop are replayed; the theorems quantify over all interleavings of the model.",
    },
    {
        "property_id": "C04",
        "technique": "Lean 4 proof: invariants of a small-step transition system over every interleaving (induction over Reach) + trace validation of the real loop under a controlled scheduler against the executable model and, via a label mapping, against the transition system itself",
        "text": "Theorems over every interleaving of any number of submitters with the loop's drain/select cycle and Stop/Start/Terminate: accepted = executed ++ batch ++ queue (exactly once, acceptance order), refused functions never run, no lost wake-up (queued function at a parked loop implies a token present or owed), Terminate drains everything, controller steps keep the queue; stepQ only takes steps of the system. Every recorded trace of the real loop is replayed through stepQ and through the detailed model, which checks that the callback that begins is the head of the batch.",
        "note": "Trusted: Lean kernel; the controlled scheduler and the event-to-label mapping; Go's synchronisation primitives and timers (modelled). What is sampled is only which schedules of the real loop are replayed; the theorems quantify over all interleavings of the model.",
    },
    {
        "property_id": "C07",
        "technique": "Lean 4 proof: invariants of a small-step transition system over every interleaving (induction over Reach) + trace validation of the real loop under a controlled scheduler against the executable model and, via a label mapping, against the transition system itself",
        "text": "Theorems: while Stop waits, canRun is 0 and the token is present or the loop is between consuming it and its exit; from there chk leads to exit and exit wakes Stop; Stop/StopNoWait on a stopped loop are not enabled (no effect); StopNoWait is two non-blocking steps enabled inside a callback; nothing accepted is lost across stop/start; restart is enabled after exit. Traces with Stop at every point of the loop's cycle are replayed; a Stop that does not return is reported by the stuck detector.",
        "note": "Trusted: Lean kernel; the controlled scheduler and the event-to-label mapping; Go's synchronisation primitives and timers (modelled). What is sampled is only which schedules of the real loop are replayed; the theorems quantify over all interleavings of the model.",
    },
    {
        "property_id": "C08",
        "technique": "Lean 4 proof: invariants of a small-step transition system over every interleaving (induction over Reach) + trace validation of the real loop under a controlled scheduler against the executable model and, via a label mapping, against the transition system itself",
        "text": 'Theorems: while terminated every submission is refused, the flag stays until the next start which clears it, terminated implies not running and an empty queue after the swap, Terminate has executed everything accepted, a start after Terminate yields empty queue and batch. Goroutine/timer cleanliness is in the ledger system (GN.EventLoop.Ledger) and observed: after the final Terminate no goroutine created by the loop is alive and jobCount = len(jobs) = 0.',
        "note": "Trusted: Lean kernel; the controlled scheduler and the event-to-label mapping; Go's synchronisation primitives and timers (modelled). What is sampled is only which schedules of the real loop are replayed; the theorems quantify over all interleavings of the model.",
    },
    {
        "property_id": "C05",
        "technique": "Lean 4 proof: per-job and counting invariants of the job-ledger transition system over every history (induction over Reach; List.modify/countP lemmas), an int64 arithmetic theorem about the regenerated delay conversion + trace validation of the real loop under a controlled scheduler",
        "text": 'Theorems over every reachable state of GN.EventLoop.Ledger: a timeout/immediate fires at most once; a job cleared before its callback began never fires, in any later state; a firing step needs a live job (delivery re-checks the flag on the loop); clearing twice is the no-op; and about msToDuration as re-extracted from eventloop.go: the ms->ns conversion never wraps (saturates), so a delay is never shortened. Every trace additionally checks with monotonic timestamps that no callback begins before its delay / one period, that the callback that runs is the one registered, and that the recorded steps are steps of the ledger system.',
        "note": "Trusted: Lean kernel; the controlled scheduler and the event-to-label mapping; Go's timers (never early), channels and select (modelled).",
    },
    {
        "property_id": "C06",
        "technique": "Lean 4 proof: per-job and counting invariants of the job-ledger transition system over every history (induction over Reach; List.modify/countP lemmas), an int64 arithmetic theorem about the regenerated delay conversion + trace validation of the real loop under a controlled scheduler",
        "text": "Theorems: jobCount equals the number of set, not yet fired/cleared jobs in every reachable state (any history of set/clear from JS and Go, expirations, deliveries live or dead, Terminate's cancel loop, restarts); it is 0 exactly when no live job is left (the loop's exit condition); clear decrements only for a live job, otherwise it is the no-op; a refused setImmediate is not counted; after Terminate the registry is empty and the count 0. Every recorded step of the real loop compares jobCount and len(jobs) with the model, Stop()'s return value with the count, and Run()'s exit/continue decision with it.",
        "note": "Trusted: Lean kernel; the controlled scheduler and the event-to-label mapping; Go's timers (never early), channels and select (modelled).",
    },
    {
        "property_id": "C18",
        "technique": "Lean 4 proof: the exact semantics of the timer-free fragment satisfies the program-independent partial-order oracle for every program (simulation invariant between model state and oracle state) + differential correspondence of real logs against oracle and exact model",
        "text": "Theorem model_meets_partial_order: for every program (any nesting of promise reactions, immediates, clears, throws) whose run was not cut short by fuel, the model's log is accepted by the oracle that states the property (current block first, reactions before any immediate/timer callback, immediates in request order, cleared never runs, nothing twice, everything scheduled and not cleared runs although earlier callbacks threw); immediates FIFO in the loop itself is C04's invariant. On every run the real loop executes generated programs; its log must satisfy the oracle and, without timers, equal the model's log literally.",
        "note": "Trusted: Lean kernel, harness; goja's promise-job draining is a modelled dependency (the model encodes the rule 'drain FIFO when the outermost call returns'); timers only through the oracle.",
    },
]
