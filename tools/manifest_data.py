HOOK_COMMITS = []

NOT_APPLICABLE = []

CHECKS = [
    {
        "property_id": "C10",
        "technique": "Lean 4 proof (kernel lemmas over BitVec 64 about definitions regenerated from buffer.go; encode/decode round trip by induction) + differential correspondence of model/spec/implementation",
        "text": "Theorems, for all int64 values/offsets/widths with no bound: the offset guards admit exactly the in-range offsets (no wrap-around), the range checks are exactly representability, the stored bytes are the two's-complement digits in the stated order placed by a splice that leaves every other byte unchanged, sign extension is two's-complement decoding, read(write(v)) = v; the registered method table (all Uint/UInt aliases) matches the names. The guards, range checks, sign extension and the per-method facts are re-extracted from buffer.go on every run, so the theorems are re-proved against the current source; the end-to-end call semantics (argument coercion order, error classes, float narrowing) is tied by running model, specification and real code on the same generated calls.",
        "note": "Trusted: Lean kernel; verif-extract; the harness; goja's ToInteger/IsNumber and Go's float32 conversion are modelled (bit-level) and only exercised, not proved. The composition of the building-block theorems into one end-to-end statement per method is checked by the driver on every generated call rather than proved.",
    },
]
