#!/usr/bin/env python3
"""Rewrites the two generated tables of DESIGN.md Part I (findings, seeded changes) from known_findings.jsonl and
seeded/*/meta.json.  The rest of DESIGN.md is hand-written."""
import json, glob, os, re
ROOT = os.path.join(os.path.dirname(os.path.abspath(__file__)), "..")
def esc(s): return s.replace("|", "/").replace("\n", " ")
finds = ["| commit | properties | what failed |", "|---|---|---|"]
for l in open(os.path.join(ROOT, "known_findings.jsonl")):
    if l.startswith("#") or not l.strip():
        continue
    d = json.loads(l)
    what = d["what"].split(" ", 3)[3] if d["what"].startswith("fixed:") else d["what"]
    finds.append("| %s | %s | %s%s |" % (d["commit"][:7], ", ".join(d["properties"]), "" if d["status"] == "fixed" else "OPEN: ", esc(what)))
seeds = ["| seed | change | detected by | note |", "|---|---|---|---|"]
n = 0
for d in sorted(glob.glob(os.path.join(ROOT, "seeded", "*"))):
    mp = os.path.join(d, "meta.json")
    if not os.path.exists(mp):
        continue
    m = json.load(open(mp)); n += 1
    seeds.append("| %s | %s | %s | %s |" % (os.path.basename(d), esc(m["breaks"]), esc(m["checks_run"]),
                 ("strengthened: " + esc(m["first_run"])) if m.get("first_run") else "first run"))
p = os.path.join(ROOT, "DESIGN.md")
s = open(p).read()
def put(s, tag, rows):
    a, b = "<!-- %s-BEGIN -->" % tag, "<!-- %s-END -->" % tag
    i, j = s.index(a), s.index(b)
    return s[:i] + a + "\n" + "\n".join(rows) + "\n" + s[j:]
s = put(s, "FINDINGS", finds)
s = put(s, "SEEDS", seeds)
s = re.sub(r"All \d+ are detected\.", "All %d are detected." % n, s)
open(p, "w").write(s)
print("findings:", len(finds) - 2, "seeds:", n)
