#!/usr/bin/env python3
"""Rewrites the two generated tables of DESIGN.md Part I (findings, seeded changes) from known_findings.jsonl and
seeded/*/meta.json.  The rest of DESIGN.md is hand-written."""
import json, glob, os, re
ROOT = os.path.join(os.path.dirname(os.path.abspath(__file__)), "..")
def esc(s): return s.replace("|", "/").replace("\n", " ")
finds = ["| commit | properties | what failed |", "|---|---|---|"]
for l in open(os.path.join(ROOT, "known_findings.jsonl")):
    if l.startswith("#") or not l.strip():
        continue
    d = json.loads(l)
    what = d["what"].split(" ", 3)[3] if d["what"].startswith("fixed:") else d["what"]
    finds.append("| %s | %s | %s%s |" % (d["commit"][:7], ", ".join(d["properties"]), "" if d["status"] == "fixed" else "OPEN: ", esc(what)))
seeds = ["| seed | change | detected by | note |", "|---|---|---|---|"]
n = 0
for d in sorted(glob.glob(os.path.join(ROOT, "seeded", "*"))):
    mp = os.path.join(d, "meta.json")
    if not os.path.exists(mp):
        continue
    m = json.load(open(mp)); n += 1
    seeds.append("| %s | %s | %s | %s |" % (os.path.basename(d), esc(m["breaks"]), esc(m["checks_run"]),
                 ("strengthened: " + esc(m["first_run"])) if m.get("first_run") else "first run"))
p = os.path.join(ROOT, "DESIGN.md")
s = open(p).read()
def put(s, tag, rows):
    a, b = "<!-- %s-BEGIN -->" % tag, "<!-- %s-END -->" % tag
    i, j = s.index(a), s.index(b)
    return s[:i] + a + "\n" + "\n".join(rows) + "\n" + s[j:]
import sys
sys.path.insert(0, os.path.dirname(os.path.abspath(__file__)))
import props_config as P
TIES = {
 'C01': 'model of resolve.go (four caches) vs cache-free reference semantics; histories on generated virtual trees',
 'C02': 'same harness, one case in twelve also on a real directory with DefaultSourceLoader/DefaultPathResolver; candidate-order theorems for any loader state; candidate literals regenerated',
 'C03': 'controlled scheduler on the real loop (yield points), trace acceptor + Queue system + coupled system',
 'C04': 'same scenarios; Queue system (FIFO, batches, wake-ups) + progress theorems',
 'C05': 'same scenarios; Ledger system (per-job state) + progress; msToDuration regenerated',
 'C06': 'same scenarios; Ledger (count exact) + coupled system (Run returns exactly at quiescence) + progress',
 'C07': 'same scenarios; Queue (Stop handshake) + bounded-steps theorems',
 'C08': 'same scenarios; Ledger + registry/goroutine matching + coupled system (drain)',
 'C09': 'panic-site inventory regenerated + hostile-argument sessions on every installed function + codec grid',
 'C10': 'guards/range checks/sign extension regenerated as BitVec 64 kernels; model/spec/implementation on generated calls',
 'C11': 'codec model vs real Buffer and Go helpers',
 'C12': 'escape tables regenerated; code-shaped model, list-level spec and implementation on histories',
 'C13': 'state machine of url.go + transcription of net/url, idna; histories with all getters; reparse theorem',
 'C14': 'RFC 3986 spec + code model + implementation on (reference, base) pairs',
 'C15': 'same require harness; lookup-order theorems; node: prefix regenerated',
 'C16': 'JSON wrapper model; .json files with hostile text, named and reached in eight ways',
 'C17': 'access tables regenerated; lockset theorems; race-detector stress',
 'C18': 'partial-order oracle + exact model; JS programs (incl. blocking callbacks) run on the real loop',
 'C19': 'single-pass formatter refined to tokenise+render; sink table regenerated; throwing conversions',
 'C20': 'env snapshot model with host changes and late runtimes; hostile environments',
}
props = ["| id | theorems | harness | tie |", "|---|---|---|---|"]
for k in sorted(P.PROPS):
    c = P.PROPS[k]
    npins = 0
    pf = os.path.join(ROOT, "lean", "GN", "Props", "Pins", k + ".lean")
    if os.path.exists(pf):
        npins = len(re.findall(r'^  \("', open(pf).read(), re.M))
    props.append("| %s | %d | `%s` | %s%s |" % (k, len(c["theorems"]) + (1 if npins else 0), c["harness"], TIES[k],
                 ("; %d declarations pinned" % npins) if npins else ""))
s = put(s, "PROPS", props)
s = put(s, "FINDINGS", finds)
s = put(s, "SEEDS", seeds)
s = re.sub(r"All \d+ are detected\.", "All %d are detected." % n, s)
open(p, "w").write(s)
print("findings:", len(finds) - 2, "seeds:", n)
